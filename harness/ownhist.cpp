// Ownership histories for nitro::lang::quaint_ptr (type-erased owning pointer) and
// nitro::lang::optional.  Payload types register every live instance by address together with a
// type tag that the destructor checks, so double destruction, destruction through the wrong
// type's destructor and leaks are seen at the event.  A small ownership model says after every
// operation which objects must have been destroyed by now.
//   ownhist <Q|O> <info|exh|rnd|seq> <slots> <depth> <lo> <hi> <block> <unused> <seed>
#include <nitro/lang/optional.hpp>
#include <nitro/lang/quaint_ptr.hpp>

#include "drv.hpp"

#include <algorithm>
#include <cstdint>
#include <functional>
#include <map>
#include <set>
#include <unordered_map>
#include <utility>

using namespace drv;
using nitro::lang::make_quaint;
using nitro::lang::quaint_ptr;

struct Reg
{
    std::unordered_map<const void*, int> live; // address -> type tag
    std::set<int> destroyed;                   // ids
    std::vector<std::string> errors;
    long constructed = 0, destructed = 0;
    void error(const std::string& e)
    {
        if (errors.size() < 8)
            errors.push_back(e);
    }
};
static Reg R;

// payload types of 12, 76 and 4804 bytes (below and above every plausible small-object threshold)
template <int K>
struct P
{
    int id;
    char pad[K * 8];
    explicit P(int i) : id(i)
    {
        ++R.constructed;
        if (!R.live.emplace(this, K).second)
            R.error("construct-over-live-object");
        pad[0] = static_cast<char>(K);
    }
    P(const P&) = delete;
    ~P()
    {
        ++R.destructed;
        auto it = R.live.find(this);
        if (it == R.live.end())
            R.error("destroy-of-unknown-or-already-destroyed-object");
        else
        {
            if (it->second != K)
                R.error("destroyed-through-the-destructor-of-another-type");
            R.live.erase(it);
        }
        if (!R.destroyed.insert(id).second)
            R.error("object-destroyed-twice");
    }
};

// payload of the optionals: copyable, every copy is its own registered object
struct Val
{
    int id;
    explicit Val(int i) : id(i)
    {
        born();
    }
    Val(const Val& o) : id(o.id)
    {
        born();
    }
    Val(Val&& o) : id(o.id)
    {
        born();
    }
    Val& operator=(const Val& o)
    {
        id = o.id;
        return *this;
    }
    ~Val()
    {
        ++R.destructed;
        auto it = R.live.find(this);
        if (it == R.live.end())
            R.error("destroy-of-unknown-or-already-destroyed-object");
        else
            R.live.erase(it);
    }
    void born()
    {
        ++R.constructed;
        if (!R.live.emplace(this, 100).second)
            R.error("construct-over-live-object");
    }
};

struct Violation
{
    std::string key, detail;
};
static std::vector<Violation> found;
static std::map<std::string, long> stats;
static void viol(const std::string& key, const std::string& detail)
{
    found.push_back({ key, detail });
}

// ---------------------------------------------------------------------------------------
// quaint_ptr world
struct QWorld
{
    std::vector<std::unique_ptr<quaint_ptr>> slot;
    std::vector<quaint_ptr> vec;
    // model
    std::vector<std::pair<int, int>> mslot; // (id, K) or (0,0)
    std::vector<std::pair<int, int>> mvec;
    std::set<int> mdestroyed;
    int next_id = 1;
    explicit QWorld(std::size_t n)
    {
        for (std::size_t i = 0; i < n; ++i)
            slot.push_back(std::make_unique<quaint_ptr>());
        mslot.assign(n, { 0, 0 });
    }
    void kill(std::pair<int, int>& m)
    {
        if (m.first)
            mdestroyed.insert(m.first);
        m = { 0, 0 };
    }
};

static int read_id(const quaint_ptr& p, int K)
{
    switch (K)
    {
    case 1:
        return p.as<P<1>>().id;
    case 9:
        return p.as<P<9>>().id;
    default:
        return p.as<P<600>>().id;
    }
}

static void qcheck_one(const quaint_ptr& p, const std::pair<int, int>& m, const std::string& where)
{
    bool empty = p.get() == nullptr;
    if (empty != (m.first == 0))
    {
        viol(m.first == 0 ? "pointer-not-empty-after-move-or-reset" : "pointer-lost-its-object", where);
        return;
    }
    if (static_cast<bool>(p) != !empty)
        viol("operator-bool-disagrees-with-get", where);
    if (!empty)
    {
        if (!R.live.count(p.get()))
        {
            viol("pointer-holds-a-destroyed-object", where);
            return;
        }
        if (read_id(p, m.second) != m.first)
            viol("pointer-holds-the-wrong-object", where);
    }
}

static void qcheck(QWorld& w, const std::string& where)
{
    for (auto& e : R.errors)
        viol(e, where);
    R.errors.clear();
    if (!found.empty())
        return;
    for (std::size_t i = 0; i < w.slot.size(); ++i)
        qcheck_one(*w.slot[i], w.mslot[i], where + " [slot " + std::to_string(i) + "]");
    if (w.vec.size() != w.mvec.size())
    {
        viol("vector-size", where);
        return;
    }
    for (std::size_t i = 0; i < w.vec.size(); ++i)
        qcheck_one(w.vec[i], w.mvec[i], where + " [vector element " + std::to_string(i) + "]");
    if (R.destroyed != w.mdestroyed)
    {
        std::string d;
        for (int id : w.mdestroyed)
            if (!R.destroyed.count(id))
                d += " not-yet-destroyed:" + std::to_string(id);
        for (int id : R.destroyed)
            if (!w.mdestroyed.count(id))
                d += " destroyed-too-early:" + std::to_string(id);
        viol(d.find("too-early") != std::string::npos ? "object-destroyed-while-still-owned" :
                                                        "object-not-destroyed-when-its-owner-let-go",
             where + d);
    }
    stats["checks"]++;
}

struct QOp
{
    std::string name;
    std::function<void(QWorld&)> run;
};

template <int K>
static void make_into(QWorld& w, std::size_t i)
{
    int id = w.next_id++;
    *w.slot[i] = make_quaint<P<K>>(id);
    w.kill(w.mslot[i]);
    w.mslot[i] = { id, K };
}

static std::vector<QOp> qalphabet(std::size_t n)
{
    std::vector<QOp> ops;
    for (std::size_t i = 0; i < n; ++i)
    {
        std::string si = std::to_string(i);
        ops.push_back({ "s" + si + "=make<P1>", [i](QWorld& w) { make_into<1>(w, i); } });
        ops.push_back({ "s" + si + "=make<P9>", [i](QWorld& w) { make_into<9>(w, i); } });
        ops.push_back({ "s" + si + "=make<P600>", [i](QWorld& w) { make_into<600>(w, i); } });
        ops.push_back({ "s" + si + ".reset()", [i](QWorld& w) {
                           w.slot[i]->reset();
                           w.kill(w.mslot[i]);
                       } });
        ops.push_back({ "s" + si + "=nullptr", [i](QWorld& w) {
                           *w.slot[i] = nullptr;
                           w.kill(w.mslot[i]);
                       } });
        ops.push_back({ "destroy s" + si, [i](QWorld& w) {
                           w.slot[i].reset();
                           w.kill(w.mslot[i]);
                           w.slot[i] = std::make_unique<quaint_ptr>();
                       } });
        ops.push_back({ "move-construct from s" + si + " and back", [i](QWorld& w) {
                           quaint_ptr q(std::move(*w.slot[i]));
                           if (w.slot[i]->get() != nullptr)
                               viol("moved-from-pointer-not-empty", "after move construction");
                           qcheck_one(q, w.mslot[i], "move-constructed pointer");
                           *w.slot[i] = std::move(q);
                           if (q.get() != nullptr)
                               viol("moved-from-pointer-not-empty", "after move assignment");
                       } });
        ops.push_back({ "vector.push_back(move(s" + si + "))", [i](QWorld& w) {
                           auto cap = w.vec.capacity();
                           w.vec.push_back(std::move(*w.slot[i]));
                           if (w.vec.capacity() != cap)
                               stats["vector-reallocations"]++;
                           w.mvec.push_back(w.mslot[i]);
                           w.mslot[i] = { 0, 0 };
                       } });
        ops.push_back({ "s" + si + "=move(vector.back())", [i](QWorld& w) {
                           if (w.vec.empty())
                               return;
                           *w.slot[i] = std::move(w.vec.back());
                           w.kill(w.mslot[i]);
                           w.mslot[i] = w.mvec.back();
                           w.mvec.back() = { 0, 0 };
                       } });
        for (std::size_t j = 0; j < n; ++j)
        {
            std::string sj = std::to_string(j);
            ops.push_back({ "s" + sj + "=move(s" + si + ")", [i, j](QWorld& w) {
                               if (i == j)
                               {
                                   // self move: valid but unspecified; the object must not be lost track of
                                   quaint_ptr& a = *w.slot[i];
                                   quaint_ptr& b = *w.slot[j];
                                   a = std::move(b);
                                   stats["self-moves"]++;
                                   if (w.slot[i]->get() == nullptr)
                                       w.kill(w.mslot[i]);
                                   return;
                               }
                               if (w.mslot[i].first == 0)
                                   stats["moves-from-empty"]++;
                               *w.slot[j] = std::move(*w.slot[i]);
                               w.kill(w.mslot[j]);
                               w.mslot[j] = w.mslot[i];
                               w.mslot[i] = { 0, 0 };
                           } });
        }
    }
    ops.push_back({ "vector.pop_back()", [](QWorld& w) {
                       if (w.vec.empty())
                           return;
                       w.vec.pop_back();
                       w.kill(w.mvec.back());
                       w.mvec.pop_back();
                   } });
    ops.push_back({ "vector.clear()", [](QWorld& w) {
                       w.vec.clear();
                       for (auto& m : w.mvec)
                           w.kill(m);
                       w.mvec.clear();
                   } });
    ops.push_back({ "vector.erase(begin)", [](QWorld& w) {
                       if (w.vec.empty())
                           return;
                       w.vec.erase(w.vec.begin());
                       w.kill(w.mvec.front());
                       w.mvec.erase(w.mvec.begin());
                   } });
    ops.push_back({ "vector.shrink_to_fit()", [](QWorld& w) {
                       auto cap = w.vec.capacity();
                       w.vec.shrink_to_fit();
                       if (w.vec.capacity() != cap)
                           stats["vector-reallocations"]++;
                   } });
    ops.push_back({ "swap(s0,s1)", [n](QWorld& w) {
                       if (n < 2)
                           return;
                       std::swap(*w.slot[0], *w.slot[1]);
                       std::swap(w.mslot[0], w.mslot[1]);
                   } });
    return ops;
}

static std::string last_final;

static void qrun(const std::vector<QOp>& ops, std::size_t n, const std::vector<int>& seq)
{
    R.destroyed.clear();
    std::set<int> all;
    {
        QWorld w(n);
        std::string trail;
        for (int o : seq)
        {
            trail += (trail.empty() ? "" : " ; ") + ops[o].name;
            try
            {
                ops[o].run(w);
            }
            catch (std::exception& e)
            {
                viol("unexpected-exception", trail + ": " + e.what());
                break;
            }
            stats["operations"]++;
            if (found.empty())
                qcheck(w, "after " + trail);
            if (!found.empty())
                break;
        }
        for (int id = 1; id < w.next_id; ++id)
            all.insert(id);
        last_final = trail + " => created " + std::to_string(w.next_id - 1) + " objects, " +
                     std::to_string(R.destroyed.size()) + " destroyed before the owners died";
        stats["objects-created"] += w.next_id - 1;
    }
    for (auto& e : R.errors)
        viol(e, "at destruction of the owners");
    R.errors.clear();
    if (found.empty())
    {
        if (!R.live.empty())
            viol("object-leaked", std::to_string(R.live.size()) + " payload objects alive after all owners died");
        else if (R.destroyed != all)
            viol("destroyed-set-differs-from-created-set", "");
    }
    R.live.clear();
    stats["sequences"]++;
}

// ---------------------------------------------------------------------------------------
// optional world
using Opt = nitro::lang::optional<Val>;

struct OWorld
{
    std::vector<std::unique_ptr<Opt>> slot;
    std::vector<int> m; // id or 0
    int next_id = 1;
    explicit OWorld(std::size_t n)
    {
        for (std::size_t i = 0; i < n; ++i)
            slot.push_back(std::make_unique<Opt>());
        m.assign(n, 0);
    }
};

static void ocheck(OWorld& w, const std::string& where)
{
    for (auto& e : R.errors)
        viol(e, where);
    R.errors.clear();
    if (!found.empty())
        return;
    std::vector<const Val*> addr(w.slot.size(), nullptr);
    for (std::size_t i = 0; i < w.slot.size(); ++i)
    {
        const Opt& o = *w.slot[i];
        bool has = static_cast<bool>(o);
        std::string here = where + " [optional " + std::to_string(i) + "]";
        if (has != (w.m[i] != 0))
        {
            viol(w.m[i] == 0 ? "optional-not-empty-after-assigning-an-empty-one" : "optional-lost-its-value", here);
            return;
        }
        bool raised = false;
        int got = 0;
        try
        {
            const Val& v = *o;
            got = v.id;
            addr[i] = &v;
        }
        catch (std::exception&)
        {
            raised = true;
        }
        if (!has && !raised)
        {
            viol("reading-an-empty-optional-did-not-raise", here);
            return;
        }
        if (has && raised)
        {
            viol("reading-a-full-optional-raised", here);
            return;
        }
        if (has && got != w.m[i])
            viol("optional-holds-the-wrong-value", here);
        if (has && !R.live.count(addr[i]))
            viol("optional-refers-to-a-destroyed-object", here);
    }
    for (std::size_t i = 0; i < addr.size(); ++i)
        for (std::size_t j = i + 1; j < addr.size(); ++j)
            if (addr[i] && addr[i] == addr[j])
                viol("two-optionals-share-one-object", where);
    std::size_t full = 0;
    for (int id : w.m)
        full += id != 0;
    if (found.empty() && R.live.size() != full)
        viol(R.live.size() > full ? "value-object-leaked" : "value-object-destroyed-early",
             where + ": " + std::to_string(R.live.size()) + " live value objects, " + std::to_string(full) +
                 " non-empty optionals");
    stats["checks"]++;
}

struct OOp
{
    std::string name;
    std::function<void(OWorld&)> run;
};

static std::vector<OOp> oalphabet(std::size_t n)
{
    std::vector<OOp> ops;
    for (std::size_t i = 0; i < n; ++i)
    {
        std::string si = std::to_string(i);
        ops.push_back({ "o" + si + "=lvalue", [i](OWorld& w) {
                           Val v(w.next_id++);
                           *w.slot[i] = static_cast<const Val&>(v);
                           w.m[i] = v.id;
                       } });
        ops.push_back({ "o" + si + "=rvalue", [i](OWorld& w) {
                           int id = w.next_id++;
                           *w.slot[i] = Val(id);
                           w.m[i] = id;
                       } });
        ops.push_back({ "o" + si + "=optional(value) constructed", [i](OWorld& w) {
                           int id = w.next_id++;
                           Val v(id);
                           w.slot[i] = std::make_unique<Opt>(static_cast<const Val&>(v));
                           w.m[i] = id;
                       } });
        ops.push_back({ "o" + si + "=empty optional", [i](OWorld& w) {
                           Opt e;
                           *w.slot[i] = e;
                           w.m[i] = 0;
                           stats["assign-empty"]++;
                       } });
        ops.push_back({ "read *optional(o" + si + ") (temporary copy)", [i](OWorld& w) {
                           // the checked read also holds for an rvalue optional
                           const Opt& src = *w.slot[i];
                           bool raised = false;
                           int got = 0;
                           try
                           {
                               got = (*Opt(src)).id;
                           }
                           catch (std::exception&)
                           {
                               raised = true;
                           }
                           if (w.m[i] == 0 && !raised)
                               viol("reading-an-empty-temporary-optional-did-not-raise", "");
                           if (w.m[i] != 0 && (raised || got != w.m[i]))
                               viol("reading-a-full-temporary-optional-failed", "");
                           bool raised2 = false;
                           try
                           {
                               Opt tmp(src);
                               got = (*std::move(tmp)).id;
                           }
                           catch (std::exception&)
                           {
                               raised2 = true;
                           }
                           if (raised2 != (w.m[i] == 0))
                               viol("reading-a-moved-optional-raises-iff-empty-broken", "");
                           stats["rvalue-reads"]++;
                       } });
        ops.push_back({ "o" + si + " default-constructed", [i](OWorld& w) {
                           w.slot[i] = std::make_unique<Opt>();
                           w.m[i] = 0;
                       } });
        for (std::size_t j = 0; j < n; ++j)
        {
            std::string sj = std::to_string(j);
            ops.push_back({ "o" + sj + "=o" + si + " (copy-assign)", [i, j](OWorld& w) {
                               const Opt& src = *w.slot[i];
                               *w.slot[j] = src;
                               w.m[j] = w.m[i];
                               if (i == j)
                                   stats["self-assign"]++;
                               if (w.m[i] == 0)
                                   stats["assign-empty"]++;
                           } });
            if (i != j)
                ops.push_back({ "o" + sj + "=optional(o" + si + ") (copy-construct)", [i, j](OWorld& w) {
                                   const Opt& src = *w.slot[i];
                                   w.slot[j] = std::make_unique<Opt>(src);
                                   w.m[j] = w.m[i];
                               } });
        }
    }
    return ops;
}

static void orun(const std::vector<OOp>& ops, std::size_t n, const std::vector<int>& seq)
{
    {
        OWorld w(n);
        std::string trail;
        for (int o : seq)
        {
            trail += (trail.empty() ? "" : " ; ") + ops[o].name;
            try
            {
                ops[o].run(w);
            }
            catch (std::exception& e)
            {
                viol("unexpected-exception", trail + ": " + e.what());
                break;
            }
            stats["operations"]++;
            if (found.empty())
                ocheck(w, "after " + trail);
            if (!found.empty())
                break;
        }
        std::string fin;
        for (int id : w.m)
            fin += (fin.empty() ? "" : ",") + (id ? std::to_string(id) : std::string("empty"));
        last_final = trail + " => [" + fin + "]";
    }
    for (auto& e : R.errors)
        viol(e, "at destruction");
    R.errors.clear();
    if (found.empty() && !R.live.empty())
        viol("value-object-leaked", std::to_string(R.live.size()) + " value objects alive after all optionals died");
    R.live.clear();
    stats["sequences"]++;
}

// ---------------------------------------------------------------------------------------
static std::uint64_t splitmix(std::uint64_t& x)
{
    x += 0x9e3779b97f4a7c15ULL;
    std::uint64_t z = x;
    z = (z ^ (z >> 30)) * 0xbf58476d1ce4e5b9ULL;
    z = (z ^ (z >> 27)) * 0x94d049bb133111ebULL;
    return z ^ (z >> 31);
}

static std::string seq_str(const std::vector<int>& seq)
{
    std::string r;
    for (std::size_t i = 0; i < seq.size(); ++i)
        r += (i ? "." : "") + std::to_string(seq[i]);
    return r;
}

static long reported = 0;
static void flush_found(const std::string& id)
{
    for (auto& v : found)
    {
        out("V C18 " + v.key + " seq=" + id + " " + v.detail);
        ++reported;
    }
    found.clear();
}

// ---------------------------------------------------------------------------------------
// optional<T> for OTHER payload types: bool (T is constructible from the optional itself through its explicit
// operator bool), a type with an unconstrained converting constructor, int, std::string, a vector; sources that
// are non-const lvalues, const lvalues and temporaries
struct Greedy
{
    int v = -1;
    Greedy() = default;
    Greedy(int x) : v(x)
    {
    }
    template <typename U, typename = decltype(static_cast<bool>(std::declval<const U&>()))>
    explicit Greedy(const U& u) : v(static_cast<bool>(u) ? 1000 : 2000) // "constructible from anything bool-like"
    {
    }
    bool operator==(const Greedy& o) const
    {
        return v == o.v;
    }
};

template <typename T>
static void optional_type_case(const std::string& name, const T& x, const T& y)
{
    using O = nitro::lang::optional<T>;
    auto check = [&](const char* what, const O& o, bool engaged, const T* value) {
        stats["optional-type-checks"]++;
        if (static_cast<bool>(o) != engaged)
        {
            viol("optional<" + name + ">:" + what + ":wrong-emptiness", engaged ? "expected a value" : "expected empty");
            return;
        }
        if (engaged && !(*o == *value))
            viol("optional<" + name + ">:" + what + ":wrong-value", "");
        if (!engaged)
        {
            bool raised = false;
            try
            {
                (void)*o;
            }
            catch (std::exception&)
            {
                raised = true;
            }
            if (!raised)
                viol("optional<" + name + ">:" + what + ":reading-empty-did-not-raise", "");
        }
    };
    O empty;
    O full(x);
    const O cempty;
    const O cfull(x);
    check("default-constructed", empty, false, nullptr);
    check("constructed-from-value", full, true, &x);
    {
        O a(empty), b(full), c(cempty), d(cfull), e{ O() }, f{ O(x) };
        check("copy-of-non-const-empty", a, false, nullptr);
        check("copy-of-non-const-full", b, true, &x);
        check("copy-of-const-empty", c, false, nullptr);
        check("copy-of-const-full", d, true, &x);
        check("copy-of-temporary-empty", e, false, nullptr);
        check("copy-of-temporary-full", f, true, &x);
        b = y; // the copy is independent
        check("source-after-the-copy-was-assigned", full, true, &x);
        check("copy-after-assignment", b, true, &y);
    }
    {
        O t(y);
        t = empty;
        check("assigned-non-const-empty", t, false, nullptr);
        t = full;
        check("assigned-non-const-full", t, true, &x);
        t = cempty;
        check("assigned-const-empty", t, false, nullptr);
        t = cfull;
        check("assigned-const-full", t, true, &x);
        t = O();
        check("assigned-temporary-empty", t, false, nullptr);
        t = O(y);
        check("assigned-temporary-full", t, true, &y);
        t = x;
        check("assigned-value", t, true, &x);
        t = *t; // the value comes from the optional's OWN payload (ASan watches the old payload)
        check("assigned-own-payload", t, true, &x);
        {
            const T& inside = *t;
            t = inside;
            check("assigned-reference-into-own-payload", t, true, &x);
        }
        T lv = y;
        t = lv;
        check("assigned-lvalue-value", t, true, &y);
        check("source-untouched", full, true, &x);
    }
}

static void optional_types()
{
    optional_type_case<bool>("bool", false, true);
    optional_type_case<bool>("bool", true, false);
    optional_type_case<int>("int", 0, 7);
    optional_type_case<Greedy>("converting-constructor-type", Greedy(3), Greedy(4));
    optional_type_case<std::string>("string", std::string("some text longer than the small buffer"), std::string());
    optional_type_case<std::vector<int>>("vector<int>", std::vector<int>{ 1, 2, 3 }, std::vector<int>{});
    optional_type_case<double>("double", 0.0, -1.5);
    optional_type_case<char>("char", '\0', 'x');
}

int main(int argc, char** argv)
{
    init();
    if (argc < 4)
        return 98;
    if (std::string(argv[2]) == "types")
    {
        begin_case({ "CASE", "0" }, 60);
        optional_types();
        flush_found("optional-payload-types");
        end_case();
        std::string st = "STATS";
        for (auto& kv : stats)
            st += " " + kv.first + "=" + std::to_string(kv.second);
        out(st);
        std::fflush(stdout);
        return 0;
    }
    bool Q = argv[1][0] == 'Q';
    std::string mode = argv[2];
    std::size_t n = std::strtoull(argv[3], nullptr, 10);
    auto qops = qalphabet(n);
    auto oops = oalphabet(n);
    std::uint64_t A = Q ? qops.size() : oops.size();
    auto run_one = [&](const std::vector<int>& seq) {
        if (Q)
            qrun(qops, n, seq);
        else
            orun(oops, n, seq);
    };
    if (mode == "info")
    {
        out("ALPHABET " + std::to_string(A));
        for (std::size_t i = 0; i < A; ++i)
            out("OP " + std::to_string(i) + " " + (Q ? qops[i].name : oops[i].name));
        std::fflush(stdout);
        return 0;
    }
    if (mode == "seq")
    {
        std::vector<int> seq;
        std::stringstream ss(argv[4]);
        std::string tok;
        while (std::getline(ss, tok, '.'))
            seq.push_back(std::atoi(tok.c_str()));
        begin_case({ "CASE", "seq" }, 60);
        run_one(seq);
        flush_found(argv[4]);
        end_case();
        std::fflush(stdout);
        return 0;
    }
    std::size_t depth = std::strtoull(argv[4], nullptr, 10);
    std::uint64_t lo = std::strtoull(argv[5], nullptr, 10), hi = std::strtoull(argv[6], nullptr, 10);
    std::uint64_t block = std::strtoull(argv[7], nullptr, 10);
    std::uint64_t seed = argc > 9 ? std::strtoull(argv[9], nullptr, 10) : 0;
    std::vector<int> seq(depth);
    for (std::uint64_t b = lo; b < hi; b += block)
    {
        begin_case({ "CASE", std::to_string(b) }, 120);
        for (std::uint64_t i = b; i < std::min(hi, b + block); ++i)
        {
            if (mode == "exh")
            {
                std::uint64_t x = i;
                for (std::size_t d = 0; d < depth; ++d)
                {
                    seq[depth - 1 - d] = static_cast<int>(x % A);
                    x /= A;
                }
            }
            else
            {
                std::uint64_t s = seed * 0x100000001b3ULL + i;
                for (std::size_t d = 0; d < depth; ++d)
                    seq[d] = static_cast<int>(splitmix(s) % A);
            }
            run_one(seq);
            if (i == lo + (hi - lo) / 2 && found.empty())
                out("SAMPLE " + seq_str(seq) + " " + last_final);
            if (!found.empty())
                flush_found(seq_str(seq));
            if (reported >= 40)
                break;
        }
        end_case();
        if (reported >= 40)
        {
            out("STOPPED after 40 verdicts");
            break;
        }
    }
    std::string st = "STATS";
    for (auto& kv : stats)
        st += " " + kv.first + "=" + std::to_string(kv.second);
    st += " constructed=" + std::to_string(R.constructed) + " destroyed=" + std::to_string(R.destructed);
    out(st);
    std::fflush(stdout);
    return 0;
}
