/* second tiny shared object for the dl histories (C19) */
double nitro_verif_fb(double x)
{
    return x * 2.0;
}
double nitro_verif_common(double x)
{
    return x + 200.0;
}
