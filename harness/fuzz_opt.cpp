// libFuzzer entry for C04: byte string -> (declaration index, argument vector).  In-process
// oracle: the only exception allowed to leave parse() is parsing_error; ASan/UBSan watch.
// The resulting corpus is decoded by the same mapping in checks/c04.py and replayed through the
// full reference model.
#include <nitro/options/parser.hpp>

#include <cstdint>
#include <cstdio>
#include <cstdlib>
#include <string>
#include <vector>

namespace no = nitro::options;

#include "fuzz_decls.inc" // generated: static const int N_DECLS; static void build_decl(int, no::parser&);

extern "C" int LLVMFuzzerTestOneInput(const std::uint8_t* data, std::size_t size)
{
    if (size < 1)
        return 0;
    int d = data[0] % N_DECLS;
    std::vector<std::string> toks;
    std::string cur;
    for (std::size_t i = 1; i < size; ++i)
    {
        if (data[i] == 0)
        {
            toks.push_back(cur);
            cur.clear();
            if (toks.size() == 8)
                break;
        }
        else
            cur.push_back(static_cast<char>(data[i]));
    }
    if (toks.size() < 8 && (size > 1))
        toks.push_back(cur);
    no::parser p("prog");
    build_decl(d, p);
    std::vector<const char*> argv;
    argv.push_back("prog");
    for (auto& t : toks)
        argv.push_back(t.c_str());
    argv.push_back(nullptr);
    try
    {
        auto a = p.parse(static_cast<int>(argv.size()) - 1, argv.data());
        // touch the result
        volatile std::size_t n = a.positionals().size();
        (void)n;
    }
    catch (no::parsing_error&)
    {
    }
    catch (std::exception& e)
    {
        std::fprintf(stderr, "FOREIGN-EXCEPTION %s\n", e.what());
        std::abort();
    }
    return 0;
}
