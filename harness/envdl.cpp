// C19: nitro::env::get and nitro::dl histories.  The loader calls of the header-only dl wrapper
// are compiled into this object, so `ld --wrap=dlopen,dlclose,dlsym,dlerror` intercepts them;
// every call is printed as an event line ("EV ...") before the result line of the command.
#include "drv.hpp"

#include <nitro/dl/dl.hpp>
#include <nitro/env/get.hpp>

#include <cxxabi.h>
#include <sys/auxv.h>
#include <functional>
#include <map>
#include <memory>

using namespace drv;

extern "C"
{
    void* __real_dlopen(const char*, int);
    int __real_dlclose(void*);
    void* __real_dlsym(void*, const char*);
    char* __real_dlerror(void);

    static std::map<void*, int> handle_ids;
    static int hid(void* h)
    {
        if (h == nullptr)
            return 0;
        auto it = handle_ids.find(h);
        if (it != handle_ids.end())
            return it->second;
        int id = static_cast<int>(handle_ids.size()) + 1;
        handle_ids[h] = id;
        return id;
    }

    void* __wrap_dlopen(const char* file, int flags)
    {
        void* h = __real_dlopen(file, flags);
        out(std::string("EV dlopen ") + (file ? hex(file) : "NULL") + " " + std::to_string(hid(h)));
        return h;
    }
    int __wrap_dlclose(void* h)
    {
        out("EV dlclose " + std::to_string(hid(h)));
        if (h == nullptr)
            return -1; // never pass NULL on: glibc would crash
        return __real_dlclose(h);
    }
    void* __wrap_dlsym(void* h, const char* name)
    {
        void* p = __real_dlsym(h, name);
        out("EV dlsym " + std::to_string(hid(h)) + " " + hex(name) + " " + (p ? "found" : "null"));
        return p;
    }
    char* __wrap_dlerror(void)
    {
        char* e = __real_dlerror();
        out(std::string("EV dlerror ") + (e ? hex(e) : "NULL"));
        return e;
    }

    // a symbol of the main program, for dl(self)
    double nitro_verif_self_fn(double x)
    {
        return x - 1.0;
    }
}

static std::string exname(const std::exception& e)
{
    int st = 0;
    char* d = abi::__cxa_demangle(typeid(e).name(), nullptr, nullptr, &st);
    std::string r = (st == 0 && d) ? d : typeid(e).name();
    std::free(d);
    for (auto& c : r)
        if (c == ' ')
            c = '_';
    return r;
}

using sym_t = nitro::dl::symbol<double(double)>;

int main(int argc, char** argv)
{
    init();
    std::map<std::string, std::string> libs; // id -> path
    for (int i = 1; i + 1 < argc; i += 2)
        libs[argv[i]] = argv[i + 1];
    std::map<int, std::unique_ptr<nitro::dl::dl>> dls;
    std::map<int, std::unique_ptr<sym_t>> syms;
    std::map<int, std::shared_ptr<void>> handles; // copies of dl::get()
    std::map<int, std::function<double(double)>> fns; // symbols stored in std::function objects
    std::vector<nitro::dl::exception> kept;           // exceptions whose diagnostic is read later
    std::string line;
    while (std::getline(std::cin, line))
    {
        auto w = split_ws(line);
        if (w.empty())
            continue;
        const std::string& c = w[0];
        try
        {
            if (c == "CASE")
            {
                dls.clear();
                syms.clear();
                handles.clear();
                fns.clear();
                kept.clear();
                begin_case(w, 20.0);
            }
            else if (c == "END")
            {
                syms.clear();
                fns.clear();
                handles.clear();
                dls.clear();
                {
                    std::string kd;
                    for (auto& k : kept)
                        kd += (kd.empty() ? "" : ",") + hex(k.dlerror());
                    kept.clear();
                    out("X ok KD=" + kd);
                }
                end_case();
            }
            else if (c == "MODE")
            {
                out(std::string("M secure=") + (getauxval(AT_SECURE) ? "1" : "0") + " uid=" + std::to_string(getuid()) +
                    " euid=" + std::to_string(geteuid()));
            }
            else if (c == "ENVSET")
            {
                setenv(unhex(w[1]).c_str(), unhex(w[2]).c_str(), 1);
                out("E ok");
            }
            else if (c == "ENVUNSET")
            {
                unsetenv(unhex(w[1]).c_str());
                out("E ok");
            }
            else if (c == "GET")
            {
                // GET <name> [<default>]
                if (w.size() > 2)
                    out("G ok " + hex(nitro::env::get(unhex(w[1]), unhex(w[2]))));
                else
                    out("G ok " + hex(nitro::env::get(unhex(w[1]))));
            }
            else if (c == "GETND")
            {
                out("G ok " + hex(nitro::env::get(unhex(w[1]), nitro::env::no_default)));
            }
            else if (c == "OPEN")
            {
                int slot = std::atoi(w[1].c_str());
                dls.erase(slot);
                if (w[2] == "SELF")
                    dls[slot] = std::make_unique<nitro::dl::dl>(nitro::dl::self);
                else
                    dls[slot] = std::make_unique<nitro::dl::dl>(libs.count(w[2]) ? libs[w[2]] : unhex(w[2]));
                out("O ok");
            }
            else if (c == "COPYDL")
            {
                int dst = std::atoi(w[1].c_str()), src = std::atoi(w[2].c_str());
                if (!dls.count(src))
                    out("O skip");
                else
                {
                    auto cp = std::make_unique<nitro::dl::dl>(*dls[src]);
                    dls.erase(dst);
                    dls[dst] = std::move(cp);
                    out("O ok");
                }
            }
            else if (c == "ASSIGNDL")
            {
                int dst = std::atoi(w[1].c_str()), src = std::atoi(w[2].c_str());
                if (!dls.count(src) || !dls.count(dst))
                    out("O skip");
                else
                {
                    *dls[dst] = *dls[src];
                    out("O ok");
                }
            }
            else if (c == "HOLD")
            {
                // HOLD <hslot> <dlslot>: keep the shared handle returned by dl::get()
                int hs = std::atoi(w[1].c_str()), ds = std::atoi(w[2].c_str());
                if (!dls.count(ds))
                    out("H skip");
                else
                {
                    auto h = dls[ds]->get();
                    handles.erase(hs);
                    handles[hs] = std::move(h);
                    out("H ok");
                }
            }
            else if (c == "DROPH")
            {
                handles.erase(std::atoi(w[1].c_str()));
                out("D ok");
            }
            else if (c == "DROPDL")
            {
                dls.erase(std::atoi(w[1].c_str()));
                out("D ok");
            }
            else if (c == "LOAD")
            {
                int ss = std::atoi(w[1].c_str()), ds = std::atoi(w[2].c_str());
                if (!dls.count(ds))
                    out("L skip");
                else
                {
                    auto s = std::make_unique<sym_t>(dls[ds]->load<double(double)>(unhex(w[3])));
                    syms.erase(ss);
                    syms[ss] = std::move(s);
                    out("L ok");
                }
            }
            else if (c == "COPYSYM")
            {
                int dst = std::atoi(w[1].c_str()), src = std::atoi(w[2].c_str());
                if (!syms.count(src))
                    out("L skip");
                else
                {
                    auto cp = std::make_unique<sym_t>(*syms[src]);
                    syms.erase(dst);
                    syms[dst] = std::move(cp);
                    out("L ok");
                }
            }
            else if (c == "ASSIGNSYM" || c == "MOVEASSIGNSYM")
            {
                int dst = std::atoi(w[1].c_str()), src = std::atoi(w[2].c_str());
                if (!syms.count(src) || !syms.count(dst))
                    out("L skip");
                else
                {
                    if (c == "ASSIGNSYM")
                        *syms[dst] = *syms[src];
                    else
                    {
                        sym_t tmp(*syms[src]);
                        *syms[dst] = std::move(tmp);
                    }
                    out("L ok");
                }
            }
            else if (c == "FNHOLD")
            {
                // FNHOLD <fslot> <symslot>: the symbol, seen through a const reference, is stored in a
                // std::function of its own signature (copy-initialisation, as when it is passed to a callback
                // registry): the std::function is one more copy of the symbol
                int fs = std::atoi(w[1].c_str()), ss = std::atoi(w[2].c_str());
                if (!syms.count(ss))
                    out("L skip");
                else
                {
                    const sym_t& cs = *syms[ss];
                    std::function<double(double)> f = cs;
                    fns.erase(fs);
                    fns[fs] = std::move(f);
                    out("L ok");
                }
            }
            else if (c == "FNDROP")
            {
                fns.erase(std::atoi(w[1].c_str()));
                out("D ok");
            }
            else if (c == "FNCALL")
            {
                int fs = std::atoi(w[1].c_str());
                if (!fns.count(fs))
                    out("C skip");
                else
                {
                    double r = fns[fs](std::atof(w[2].c_str()));
                    char buf[64];
                    std::snprintf(buf, sizeof buf, "C ok %.17g", r);
                    out(buf);
                }
            }
            else if (c == "DROPSYM")
            {
                syms.erase(std::atoi(w[1].c_str()));
                out("D ok");
            }
            else if (c == "CALL")
            {
                int ss = std::atoi(w[1].c_str());
                if (!syms.count(ss))
                    out("C skip");
                else
                {
                    double r = (*syms[ss])(std::atof(w[2].c_str()));
                    char buf[64];
                    std::snprintf(buf, sizeof buf, "C ok %.17g", r);
                    out(buf);
                }
            }
            else if (c == "PROBE")
            {
                std::string o = "P";
                for (auto& l : libs)
                {
                    void* h = __real_dlopen(l.second.c_str(), RTLD_NOW | RTLD_NOLOAD);
                    o += " " + l.first + "=" + (h ? "mapped" : "unmapped");
                    if (h)
                        __real_dlclose(h);
                }
                out(o);
            }
            else
            {
                std::fprintf(stderr, "driver: unknown command '%s'\n", c.c_str());
                return 98;
            }
        }
        catch (nitro::dl::exception& e)
        {
            // every second exception is KEPT (a copy) and its diagnostic is read only at the end of the history,
            // after the loader has been used again: it must still be the diagnostic of ITS failure
            static unsigned long raised = 0;
            if (raised++ % 2 == 1)
            {
                kept.emplace_back(e);
                out(std::string(1, c[0]) + " !dl::exception DEFERRED " + hex(e.what()));
            }
            else
                out(std::string(1, c[0]) + " !dl::exception " + hex(e.dlerror()) + " " + hex(e.what()));
        }
        catch (std::exception& e)
        {
            out(std::string(1, c[0]) + " !" + exname(e));
        }
    }
    std::fflush(stdout);
    return 0;
}
