// Common driver plumbing: script reader, hex strings, BEGIN/END markers, CPU-time budget.
#pragma once

#include <csignal>
#include <cstdio>
#include <cstdlib>
#include <cstring>
#include <iostream>
#include <sstream>
#include <string>
#include <typeinfo>
#include <vector>

#include <sys/time.h>
#include <unistd.h>

namespace drv
{
inline std::string hex(const std::string& s)
{
    static const char* d = "0123456789abcdef";
    std::string r = "x";
    r.reserve(1 + 2 * s.size());
    for (unsigned char c : s)
    {
        r.push_back(d[c >> 4]);
        r.push_back(d[c & 15]);
    }
    return r;
}

inline int hv(char c)
{
    if (c >= '0' && c <= '9')
        return c - '0';
    if (c >= 'a' && c <= 'f')
        return c - 'a' + 10;
    std::fprintf(stderr, "driver: bad hex digit\n");
    std::_Exit(99);
}

inline std::string unhex(const std::string& s)
{
    if (s.empty() || s[0] != 'x' || (s.size() % 2) != 1)
    {
        std::fprintf(stderr, "driver: bad hex string '%s'\n", s.c_str());
        std::_Exit(99);
    }
    std::string r;
    r.reserve(s.size() / 2);
    for (std::size_t i = 1; i + 1 < s.size(); i += 2)
        r.push_back(static_cast<char>(hv(s[i]) * 16 + hv(s[i + 1])));
    return r;
}

inline std::vector<std::string> split_ws(const std::string& line)
{
    std::vector<std::string> r;
    std::size_t i = 0;
    while (i < line.size())
    {
        while (i < line.size() && line[i] == ' ')
            ++i;
        std::size_t j = i;
        while (j < line.size() && line[j] != ' ')
            ++j;
        if (j > i)
            r.emplace_back(line, i, j - i);
        i = j;
    }
    return r;
}

// output goes through stdio with explicit flushes at BEGIN, so that a crash in the middle
// of a case never loses the marker
inline void out(const std::string& s)
{
    std::fwrite(s.data(), 1, s.size(), stdout);
    std::fputc('\n', stdout);
}

inline char current_case[256];

inline void on_cpu_timeout(int)
{
    const char* a = "TIMEOUT ";
    // async-signal-safe: raw writes only; stdio buffer content of this case is lost, which
    // is fine, the case is reported as timed out
    (void)!write(1, "\n", 1);
    (void)!write(1, a, std::strlen(a));
    (void)!write(1, current_case, std::strlen(current_case));
    (void)!write(1, "\n", 1);
    _exit(70);
}

inline void arm(double cpu_s)
{
    struct itimerval it;
    std::memset(&it, 0, sizeof it);
    it.it_value.tv_sec = static_cast<long>(cpu_s);
    it.it_value.tv_usec = static_cast<long>((cpu_s - static_cast<long>(cpu_s)) * 1e6);
    setitimer(ITIMER_VIRTUAL, &it, nullptr);
}

inline void disarm()
{
    struct itimerval it;
    std::memset(&it, 0, sizeof it);
    setitimer(ITIMER_VIRTUAL, &it, nullptr);
}

inline void begin_case(const std::vector<std::string>& w, double default_cpu_s)
{
    std::snprintf(current_case, sizeof current_case, "%s", w.at(1).c_str());
    double cpu = default_cpu_s;
    if (w.size() > 2)
        cpu = std::atof(w[2].c_str());
    std::fflush(stdout);
    out("BEGIN " + w[1]);
    std::fflush(stdout);
    arm(cpu);
}

inline void end_case()
{
    disarm();
    out(std::string("END ") + current_case);
    current_case[0] = 0;
}

inline void init()
{
    std::signal(SIGVTALRM, on_cpu_timeout);
    static char buf[1 << 16];
    std::setvbuf(stdout, buf, _IOFBF, sizeof buf);
}
} // namespace drv
