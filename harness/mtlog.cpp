// Multi-threaded logging through deliberately NON-thread-safe stream buffers (C09).
//   mtlog <topology> <threads> <records> <maxlen> <seed> <inner_delay_permille>
// topology: 1 = one logger on stdout_mt
//           2 = two logger types sharing stdout_mt (the sink's mutex must be shared)
//           3 = one logger on sequence<stdout_mt, StdErrThreaded>
//           4 = one logger on StdErrThreaded
// std::cout / std::cerr get a racy_buf: a staging area filled by writes (in two halves with a seeded
// yield in between) and drained into the capture by flushes, all through plain variables, so a missing
// or too narrow lock - around the write OR the flush - garbles the capture; an
// overlap detector (relaxed atomics only, so that it adds no happens-before edges for TSan)
// counts concurrent entries.  After join an offline checker parses the capture.
#include <nitro/log/log.hpp>

#include <nitro/log/attribute/message.hpp>
#include <nitro/log/attribute/severity.hpp>
#include <nitro/log/attribute/timestamp.hpp>
#include <nitro/log/filter/severity_filter.hpp>
#include <nitro/log/sink/sequence.hpp>
#include <nitro/log/sink/stderr_mt.hpp>
#include <nitro/log/sink/stdout_mt.hpp>

#include <atomic>
#include <cstdint>
#include <cstdio>
#include <cstring>
#include <iostream>
#include <map>
#include <set>
#include <streambuf>
#include <string>
#include <thread>
#include <vector>

#include <sched.h>
#include <time.h>

static std::atomic<int> in_statement{ 0 };
static int inner_delay_permille = 200;

static inline std::uint64_t splitmix(std::uint64_t& x)
{
    x += 0x9e3779b97f4a7c15ULL;
    std::uint64_t z = x;
    z = (z ^ (z >> 30)) * 0xbf58476d1ce4e5b9ULL;
    z = (z ^ (z >> 27)) * 0x94d049bb133111ebULL;
    return z ^ (z >> 31);
}

static void small_delay(std::uint64_t r)
{
    switch (r % 4)
    {
    case 0:
        sched_yield();
        break;
    case 1:
    {
        struct timespec ts = { 0, static_cast<long>(1000 + (r >> 8) % 40000) };
        nanosleep(&ts, nullptr);
        break;
    }
    case 2:
    {
        volatile unsigned spin = 0;
        for (unsigned i = 0; i < 200 + (r >> 8) % 2000; ++i)
            spin = spin + i;
        break;
    }
    default:
        break;
    }
}

class racy_buf : public std::streambuf
{
public:
    // a two-stage buffer, as a real stream has: xsputn appends to a staging area, sync() drains the
    // staging area into the capture.  Everything is deliberately plain (not atomic, not locked).
    std::vector<char> data;
    std::vector<char> stage;
    std::size_t cursor = 0;    // bytes drained into data
    std::size_t stage_len = 0; // bytes waiting in the staging area
    std::atomic<int> inside{ 0 };
    std::atomic<long> overlaps{ 0 }, entries{ 0 }, contended{ 0 }, overruns{ 0 }, syncs{ 0 };
    std::uint64_t rng = 12345; // deliberately plain as well: only touched inside the buffer

    explicit racy_buf(std::size_t cap) : data(cap), stage(1 << 16)
    {
    }

    void final_drain()
    {
        drain();
    }

protected:
    void enter()
    {
        int prev = inside.fetch_add(1, std::memory_order_relaxed);
        if (prev != 0)
            overlaps.fetch_add(1, std::memory_order_relaxed);
    }
    void leave()
    {
        inside.fetch_sub(1, std::memory_order_relaxed);
    }
    void maybe_delay()
    {
        std::uint64_t r = splitmix(rng);
        if (static_cast<int>(r % 1000) < inner_delay_permille)
            small_delay(r >> 10);
    }
    void drain()
    {
        std::size_t n = stage_len;
        std::size_t c = cursor;
        if (c + n > data.size())
        {
            overruns.fetch_add(1, std::memory_order_relaxed);
            stage_len = 0;
            return;
        }
        std::memcpy(data.data() + c, stage.data(), n);
        if (n)
            maybe_delay();
        cursor = c + n;
        stage_len = 0;
    }
    std::streamsize xsputn(const char* s, std::streamsize n) override
    {
        enter();
        entries.fetch_add(1, std::memory_order_relaxed);
        if (in_statement.load(std::memory_order_relaxed) > 1)
            contended.fetch_add(1, std::memory_order_relaxed);
        std::size_t len = static_cast<std::size_t>(n);
        if (stage_len + len > stage.size())
            drain();
        std::size_t c = stage_len;
        if (c + len > stage.size())
        {
            overruns.fetch_add(1, std::memory_order_relaxed);
        }
        else
        {
            std::size_t half = len / 2;
            std::memcpy(stage.data() + c, s, half);
            maybe_delay();
            std::memcpy(stage.data() + c + half, s + half, len - half);
            stage_len = c + len;
        }
        leave();
        return n;
    }
    int_type overflow(int_type ch) override
    {
        if (ch != traits_type::eof())
        {
            char c = static_cast<char>(ch);
            xsputn(&c, 1);
        }
        return ch;
    }
    int sync() override
    {
        // flushing is part of the stream's unsynchronised state, too: it must happen under the
        // sink's lock like the write itself
        enter();
        syncs.fetch_add(1, std::memory_order_relaxed);
        drain();
        leave();
        return 0;
    }
};

// ---------------------------------------------------------------------------------------
using Rec = nitro::log::record<nitro::log::message_attribute, nitro::log::severity_attribute,
                               nitro::log::timestamp_attribute>;
struct Rec2 : Rec
{
};

template <typename R>
struct Fmt
{
    std::string format(R& r)
    {
        return "\x02" + r.message() + "\x03";
    }
};
template <typename R>
struct FmtB
{
    std::string format(R& r)
    {
        std::string m = "\x02";
        m += r.message();
        m += "\x03";
        return m;
    }
};
// formatters with other RETURN TYPES: a C string / a reference into a per-thread buffer (what a formatter
// that avoids a temporary per record looks like); the sink receives whatever format() returns
template <typename R>
struct FmtC
{
    const char* format(R& r)
    {
        static thread_local std::string buf;
        buf = "\x02" + r.message() + "\x03";
        return buf.c_str();
    }
};
template <typename R>
struct FmtR
{
    const std::string& format(R& r)
    {
        static thread_local std::string buf;
        buf = "\x02" + r.message() + "\x03";
        return buf;
    }
};
template <typename R>
using Filter = nitro::log::filter::severity_filter<R>;

using L1 = nitro::log::logger<Rec, Fmt, nitro::log::sink::stdout_mt, Filter>;
using L2 = nitro::log::logger<Rec, FmtB, nitro::log::sink::stdout_mt, Filter>;
using L3 = nitro::log::logger<Rec, Fmt, nitro::log::sink::sequence<nitro::log::sink::stdout_mt, nitro::log::sink::StdErrThreaded>,
                              Filter>;
using L4 = nitro::log::logger<Rec, Fmt, nitro::log::sink::StdErrThreaded, Filter>;
using L1c = nitro::log::logger<Rec, FmtC, nitro::log::sink::stdout_mt, Filter>;
using L1r = nitro::log::logger<Rec, FmtR, nitro::log::sink::stdout_mt, Filter>;
using L4c = nitro::log::logger<Rec, FmtC, nitro::log::sink::StdErrThreaded, Filter>;
using L4r = nitro::log::logger<Rec, FmtR, nitro::log::sink::StdErrThreaded, Filter>;

static std::string payload(unsigned tid, unsigned seq, unsigned len)
{
    std::string p(len, ' ');
    std::uint64_t x = (static_cast<std::uint64_t>(tid) << 32) ^ seq;
    for (unsigned i = 0; i < len; ++i)
    {
        if (i % 8 == 0)
            x = x * 6364136223846793005ULL + 1442695040888963407ULL;
        p[i] = static_cast<char>('a' + ((x >> (8 * (i % 8))) & 0xff) % 26);
    }
    return p;
}

static unsigned rec_len(unsigned tid, unsigned seq, unsigned maxlen, std::uint64_t seed)
{
    std::uint64_t x = seed ^ (static_cast<std::uint64_t>(tid) << 40) ^ (static_cast<std::uint64_t>(seq) << 8);
    std::uint64_t r = splitmix(x);
    // mostly short, sometimes long
    if (r % 10 == 0)
        return 1 + (r >> 8) % maxlen;
    return 1 + (r >> 8) % (maxlen < 64 ? maxlen : 64);
}

static unsigned g_threads = 0, g_maxlen = 0;
static std::uint64_t g_seed = 0;
static std::atomic<long long>* g_issued = nullptr;
static long long g_sinks_per_record = 1;

static void account(unsigned tid, unsigned seq, unsigned len)
{
    char head[64];
    int hl = std::snprintf(head, sizeof head, "%u:%u:%u:", tid, seq, len);
    g_issued->fetch_add((2 + hl + static_cast<long long>(len)) * g_sinks_per_record, std::memory_order_relaxed);
}

// the severity function of a statement: all six are used (seq selects one), the record is the same
#define WITH_LEVEL(L, seq, BODY)            \
    switch ((seq) % 6)                      \
    {                                       \
    case 0:                                 \
    {                                       \
        auto s = L::info();                 \
        BODY;                               \
        break;                              \
    }                                       \
    case 1:                                 \
    {                                       \
        auto s = L::warn();                 \
        BODY;                               \
        break;                              \
    }                                       \
    case 2:                                 \
    {                                       \
        auto s = L::fatal();                \
        BODY;                               \
        break;                              \
    }                                       \
    case 3:                                 \
    {                                       \
        auto s = L::trace();                \
        BODY;                               \
        break;                              \
    }                                       \
    case 4:                                 \
    {                                       \
        auto s = L::error();                \
        BODY;                               \
        break;                              \
    }                                       \
    default:                                \
    {                                       \
        auto s = L::debug();                \
        BODY;                               \
        break;                              \
    }                                       \
    }

// the one-expression form: the stream is a temporary
#define EXPR_LEVEL(L, seq, ITEMS) \
    switch ((seq) % 6)            \
    {                             \
    case 0:                       \
        L::info() ITEMS;          \
        break;                    \
    case 1:                       \
        L::warn() ITEMS;          \
        break;                    \
    case 2:                       \
        L::fatal() ITEMS;         \
        break;                    \
    case 3:                       \
        L::trace() ITEMS;         \
        break;                    \
    case 4:                       \
        L::error() ITEMS;         \
        break;                    \
    default:                      \
        L::debug() ITEMS;         \
        break;                    \
    }

template <typename L>
static void statement(unsigned tid, unsigned seq, unsigned len, bool named)
{
    std::string p = payload(tid, seq, len);
    // severities differ per thread at the same moment (tid shifts the rotation)
    unsigned lv = seq + tid;
    if (seq % 7 == 3)
    {
        // an operand that itself logs: two statements of one thread are alive at the same time; the inner
        // record belongs to the virtual thread tid + threads
        unsigned vt = tid + g_threads;
        unsigned ilen = rec_len(vt, seq, g_maxlen, g_seed);
        auto inner = [=] {
            L::info() << vt << ':' << seq << ':' << ilen << ':' << payload(vt, seq, ilen);
            account(vt, seq, ilen);
            return std::string();
        };
        if (named)
        {
            auto s = L::warn();
            s << tid << ':' << seq;
            s << inner << ':' << len << ':' << p;
        }
        else
        {
            L::fatal() << tid << ':' << seq << ':' << inner << len << ':' << p;
        }
        return;
    }
    if (named)
    {
        WITH_LEVEL(L, lv, {
            s << tid << ':';
            s << seq << ':' << len;
            s << ':' << p;
        })
    }
    else
    {
        EXPR_LEVEL(L, lv, << tid << ':' << seq << ':' << len << ':' << p)
    }
}

static std::vector<std::string> violations;

static void parse_capture(const char* name, const racy_buf& b, unsigned threads, unsigned records, unsigned maxlen,
                          std::uint64_t seed, std::string& order_out, long& switches_out)
{
    const char* d = b.data.data();
    std::size_t n = b.cursor;
    std::vector<long> next(2 * threads, -1);
    std::set<std::pair<unsigned, unsigned>> seen;
    std::size_t i = 0;
    long count = 0;
    int last_tid = -1;
    while (i < n)
    {
        if (d[i] != 2)
        {
            violations.push_back(std::string("bytes-outside-any-record ") + name + " at offset " + std::to_string(i));
            return;
        }
        std::size_t j = i + 1;
        while (j < n && d[j] != 3 && d[j] != 2)
            ++j;
        if (j >= n || d[j] != 3)
        {
            violations.push_back(std::string("record-not-contiguous ") + name + " at offset " + std::to_string(i));
            return;
        }
        std::string body(d + i + 1, j - i - 1);
        unsigned tid = 0, seq = 0, len = 0;
        int consumed = 0;
        if (std::sscanf(body.c_str(), "%u:%u:%u:%n", &tid, &seq, &len, &consumed) != 3 || consumed == 0 ||
            tid >= 2 * threads || seq >= records)
        {
            violations.push_back(std::string("record-header-garbled ") + name + " '" + body.substr(0, 40) + "'");
            return;
        }
        std::string pl = body.substr(static_cast<std::size_t>(consumed));
        if (len != rec_len(tid, seq, maxlen, seed) || pl != payload(tid, seq, len))
        {
            violations.push_back(std::string("record-bytes-interleaved-or-altered ") + name + " tid " +
                                 std::to_string(tid) + " seq " + std::to_string(seq));
            return;
        }
        if (!seen.emplace(tid, seq).second)
        {
            violations.push_back(std::string("record-duplicated ") + name + " tid " + std::to_string(tid) + " seq " +
                                 std::to_string(seq));
            return;
        }
        bool in_order = tid < threads ? static_cast<long>(seq) == next[tid] + 1 : static_cast<long>(seq) > next[tid];
        if (!in_order)
        {
            violations.push_back(std::string("thread-order-broken ") + name + " tid " + std::to_string(tid) +
                                 " after seq " + std::to_string(next[tid]) + " got " + std::to_string(seq));
            return;
        }
        next[tid] = seq;
        if (static_cast<int>(tid) != last_tid)
        {
            ++switches_out;
            last_tid = static_cast<int>(tid);
        }
        order_out.push_back(static_cast<char>(tid < threads ? 'A' + tid : 'a' + (tid - threads)));
        ++count;
        i = j + 1;
    }
    long inner = 0;
    for (unsigned s = 0; s < records; ++s)
        inner += (s % 7 == 3);
    long expect = static_cast<long>(threads) * (records + inner);
    if (count != expect)
        violations.push_back(std::string("record-lost ") + name + ": " + std::to_string(count) + " of " +
                             std::to_string(expect) + " records captured");
}

int main(int argc, char** argv)
{
    if (argc < 7)
    {
        std::fprintf(stderr, "usage: mtlog <topology> <threads> <records> <maxlen> <seed> <inner_delay_permille>\n");
        return 98;
    }
    int topo = std::atoi(argv[1]);
    unsigned threads = static_cast<unsigned>(std::atoi(argv[2]));
    unsigned records = static_cast<unsigned>(std::atoi(argv[3]));
    unsigned maxlen = static_cast<unsigned>(std::atoi(argv[4]));
    std::uint64_t seed = std::strtoull(argv[5], nullptr, 10);
    inner_delay_permille = std::atoi(argv[6]);
    // rounds mode: every `per_round` records all threads meet at a barrier and the main thread checks
    // that every byte of every record issued so far has reached the stream (a record that is only
    // delivered when somebody logs again is lost as far as a quiescent program is concerned)
    unsigned per_round = argc > 7 ? static_cast<unsigned>(std::atoi(argv[7])) : 0;

    std::size_t cap = static_cast<std::size_t>(threads) * records * (maxlen + 64) * 2 + 4096;
    racy_buf outbuf(cap), errbuf(cap);
    outbuf.rng = seed * 3 + 1;
    errbuf.rng = seed * 5 + 2;
    std::cout.flush();
    // every second run the sinks have ALREADY BEEN USED when the capture buffers are installed: a few records
    // go to an earlier pair of buffers first (the output is whatever buffer the stream has when a record is logged)
    racy_buf warm_out(1 << 16), warm_err(1 << 16);
    bool warmed = seed % 2 == 0;
    std::size_t warm_bytes = 0;
    auto* old_out = std::cout.rdbuf();
    auto* old_err = std::cerr.rdbuf();
    if (warmed)
    {
        std::cout.rdbuf(&warm_out);
        std::cerr.rdbuf(&warm_err);
        for (int k = 0; k < 3; ++k)
        {
            L1::info() << "warm-up " << k;
            L2::warn() << "warm-up " << k;
            L3::info() << "warm-up " << k;
            L4::warn() << "warm-up " << k;
        }
        std::cout.flush();
        std::cerr.flush();
        warm_out.final_drain();
        warm_err.final_drain();
        warm_bytes = warm_out.cursor + warm_err.cursor;
        if (warm_out.cursor == 0 || warm_err.cursor == 0)
            std::printf("V warm-up-records-did-not-reach-the-installed-buffer cout=%zu cerr=%zu\n", warm_out.cursor, warm_err.cursor);
    }
    std::cout.rdbuf(&outbuf);
    std::cerr.rdbuf(&errbuf);
    auto* old_tie = std::cerr.tie();
    if (topo == 3)
    {
        // std::cerr is tied to std::cout: every insertion into std::cerr first flushes std::cout, outside
        // the stdout sink's mutex.  That concerns programs that use BOTH sinks at once, which the property does
        // not quantify over (one logger, one of the two sinks); the tie is removed for this topology so that
        // the two sinks are exercised independently.
        std::cerr.tie(nullptr);
    }

    std::atomic<bool> go{ false };
    std::atomic<unsigned> ready{ 0 };
    std::atomic<unsigned> arrived{ 0 }, generation{ 0 };
    std::atomic<long long> issued_bytes{ 0 };
    std::atomic<long> rounds_checked{ 0 };
    std::atomic<bool> stranded{ false };
    std::atomic<long> stranded_round{ -1 };
    const long long sinks_per_record = topo == 3 ? 2 : 1;
    g_threads = threads;
    g_maxlen = maxlen;
    g_seed = seed;
    g_issued = &issued_bytes;
    g_sinks_per_record = sinks_per_record;
    std::vector<std::thread> ts;
    for (unsigned t = 0; t < threads; ++t)
    {
        ts.emplace_back([&, t] {
            std::uint64_t rng = seed * 1000003ULL + t;
            ready.fetch_add(1, std::memory_order_relaxed);
            while (!go.load(std::memory_order_acquire))
            {
            }
            for (unsigned s = 0; s < records; ++s)
            {
                unsigned len = rec_len(t, s, maxlen, seed);
                bool named = (splitmix(rng) & 3) == 0;
                in_statement.fetch_add(1, std::memory_order_relaxed);
                switch (topo)
                {
                case 1:
                    // the threads use formatters of three return types on the same sink
                    if (t % 3 == 1)
                        statement<L1c>(t, s, len, named);
                    else if (t % 3 == 2)
                        statement<L1r>(t, s, len, named);
                    else
                        statement<L1>(t, s, len, named);
                    break;
                case 2:
                    if (t % 2)
                        statement<L2>(t, s, len, named);
                    else
                        statement<L1>(t, s, len, named);
                    break;
                case 3:
                    statement<L3>(t, s, len, named);
                    break;
                default:
                    if (t % 3 == 1)
                        statement<L4c>(t, s, len, named);
                    else if (t % 3 == 2)
                        statement<L4r>(t, s, len, named);
                    else
                        statement<L4>(t, s, len, named);
                    break;
                }
                in_statement.fetch_sub(1, std::memory_order_relaxed);
                account(t, s, len); // STX tid:seq:len:payload ETX
                std::uint64_t r = splitmix(rng);
                if (r % 8 == 0 && !per_round)
                    small_delay(r >> 8);
                if (per_round && (s + 1) % per_round == 0)
                {
                    // sense-reversing barrier; the last thread to arrive checks quiescent completeness
                    unsigned gen = generation.load(std::memory_order_acquire);
                    if (arrived.fetch_add(1, std::memory_order_acq_rel) + 1 == threads)
                    {
                        long long have = static_cast<long long>(outbuf.cursor + outbuf.stage_len + errbuf.cursor +
                                                                errbuf.stage_len);
                        if (have != issued_bytes.load(std::memory_order_relaxed) && !stranded.load())
                        {
                            stranded.store(true);
                            stranded_round.store(static_cast<long>(s / per_round));
                        }
                        rounds_checked.fetch_add(1, std::memory_order_relaxed);
                        arrived.store(0, std::memory_order_relaxed);
                        generation.store(gen + 1, std::memory_order_release);
                    }
                    else
                    {
                        while (generation.load(std::memory_order_acquire) == gen)
                            sched_yield();
                    }
                }
            }
        });
    }
    while (ready.load(std::memory_order_relaxed) < threads)
        sched_yield();
    go.store(true, std::memory_order_release);
    for (auto& t : ts)
        t.join();
    outbuf.final_drain();
    errbuf.final_drain();
    std::cout.rdbuf(old_out);
    std::cerr.rdbuf(old_err);
    std::cerr.tie(old_tie);

    if (warmed)
    {
        warm_out.final_drain();
        warm_err.final_drain();
        if (warm_out.cursor + warm_err.cursor != warm_bytes)
            violations.push_back("record-written-to-a-replaced-stream-buffer (" +
                                 std::to_string(warm_out.cursor + warm_err.cursor - warm_bytes) +
                                 " bytes went to the buffer the stream had before the capture buffer was installed)");
    }
    std::string order_out, order_err;
    long sw_out = 0, sw_err = 0;
    bool uses_out = topo != 4, uses_err = topo >= 3;
    if (outbuf.overlaps.load() || errbuf.overlaps.load())
        violations.push_back("two-threads-inside-the-stream-buffer cout=" + std::to_string(outbuf.overlaps.load()) +
                             " cerr=" + std::to_string(errbuf.overlaps.load()));
    if (stranded.load())
        violations.push_back("record-not-delivered-at-quiescence round " + std::to_string(stranded_round.load()) +
                             " (all threads idle at a barrier, issued bytes != bytes that reached the stream)");
    if (outbuf.overruns.load() || errbuf.overruns.load())
        violations.push_back("capture-overrun (cursor corrupted by concurrent writers)");
    if (uses_out)
        parse_capture("cout", outbuf, threads, records, maxlen, seed, order_out, sw_out);
    else if (outbuf.cursor != 0)
        violations.push_back("unexpected-bytes-on cout");
    if (uses_err)
        parse_capture("cerr", errbuf, threads, records, maxlen, seed, order_err, sw_err);
    else if (errbuf.cursor != 0)
        violations.push_back("unexpected-bytes-on cerr");

    std::uint64_t h = 1469598103934665603ULL;
    for (char c : order_out + "|" + order_err)
        h = (h ^ static_cast<unsigned char>(c)) * 1099511628211ULL;
    for (auto& v : violations)
        std::printf("V %s\n", v.c_str());
    std::printf("RESULT topology=%d threads=%u records=%ld entries=%ld contended=%ld overlaps=%ld switches=%ld "
                "order_hash=%016llx syncs=%ld rounds=%ld warmed=%d\n",
                topo, threads, static_cast<long>(order_out.size() + order_err.size()),
                outbuf.entries.load() + errbuf.entries.load(), outbuf.contended.load() + errbuf.contended.load(),
                outbuf.overlaps.load() + errbuf.overlaps.load(), sw_out + sw_err,
                static_cast<unsigned long long>(h), outbuf.syncs.load() + errbuf.syncs.load(), rounds_checked.load(),
                warmed ? 1 : 0);
    std::string head = (order_out.empty() ? order_err : order_out).substr(0, 60);
    std::printf("ORDER %s\n", head.c_str());
    return violations.empty() ? 0 : 1;
}
