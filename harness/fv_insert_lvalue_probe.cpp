// compile probe: appending an lvalue with insert() must compile for an ordinary element type
#include <memory>

#include <nitro/lang/fixed_vector.hpp>

#include <string>

int main()
{
    nitro::lang::fixed_vector<std::string> v(2);
    const std::string s("x");
    v.insert(s);
    nitro::lang::fixed_vector<int> w(2);
    const int i = 3;
    w.insert(i);
    return (v.size() == 1 && w.size() == 1 && v[0] == "x" && w[0] == 3) ? 0 : 1;
}
