// compile probe: user_input::verbatim() (the factory for tokens that are values whatever they look like).
// On a tree without it the option driver builds its "W" vectors with the string constructor instead.
#include <nitro/options/user_input.hpp>

int main()
{
    auto v = nitro::options::user_input::verbatim("-x");
    return v.is_value() ? 0 : 1;
}
