// C16: hashing agrees with equality, comparison with the member tuple.  Exhaustive grids.
//   hashgrid <scale> <seed>      scale 1 = quick grids, 2 = thorough (larger grids)
#include <nitro/lang/hash.hpp>
#include <nitro/lang/tuple_operators.hpp>
#include <nitro/lang/unordered.hpp>

#include <cstdint>
#include <cstdio>
#include <functional>
#include <algorithm>
#include <cstring>
#include <map>
#include <new>
#include <memory>
#include <set>
#include <string>
#include <tuple>
#include <variant>
#include <vector>

static std::map<std::string, long> stats;
static std::map<std::string, std::string> violations;

static void viol(const std::string& key, const std::string& detail)
{
    if (!violations.count(key))
        violations[key] = detail;
}

static std::uint64_t splitmix(std::uint64_t& x)
{
    x += 0x9e3779b97f4a7c15ULL;
    std::uint64_t z = x;
    z = (z ^ (z >> 30)) * 0xbf58476d1ce4e5b9ULL;
    z = (z ^ (z >> 27)) * 0x94d049bb133111ebULL;
    return z ^ (z >> 31);
}

// ---------------------------------------------------------------------------------------
struct A : nitro::lang::tuple_operators<A>
{
    std::int8_t a;
    int b;
    long long c;
    A(std::int8_t a, int b, long long c) : a(a), b(b), c(c)
    {
    }
    auto as_tuple()
    {
        return std::tie(a, b, c);
    }
};

struct B : nitro::lang::tuple_operators<B>
{
    std::string s;
    double d;
    int i;
    B(std::string s, double d, int i) : s(std::move(s)), d(d), i(i)
    {
    }
    auto as_tuple()
    {
        return std::tie(s, d, i);
    }
};

struct C : nitro::lang::tuple_operators<C>
{
    std::pair<int, std::string> p;
    std::tuple<int, char> t;
    unsigned u;
    C(std::pair<int, std::string> p, std::tuple<int, char> t, unsigned u) : p(std::move(p)), t(t), u(u)
    {
    }
    auto as_tuple()
    {
        return std::tie(p, t, u);
    }
};

template <typename X>
static int cmp3(const X& x, const X& y)
{
    return x < y ? -1 : (y < x ? 1 : 0);
}

// hand-written lexicographic references (not std::tuple's operators)
static int ref_cmp(const A& x, const A& y)
{
    if (x.a != y.a)
        return x.a < y.a ? -1 : 1;
    if (x.b != y.b)
        return x.b < y.b ? -1 : 1;
    if (x.c != y.c)
        return x.c < y.c ? -1 : 1;
    return 0;
}
static int ref_cmp(const B& x, const B& y)
{
    int c = x.s.compare(y.s);
    if (c)
        return c < 0 ? -1 : 1;
    if (x.d < y.d)
        return -1;
    if (y.d < x.d)
        return 1;
    if (x.i != y.i)
        return x.i < y.i ? -1 : 1;
    return 0;
}
static int ref_cmp(const C& x, const C& y)
{
    if (x.p.first != y.p.first)
        return x.p.first < y.p.first ? -1 : 1;
    int c = x.p.second.compare(y.p.second);
    if (c)
        return c < 0 ? -1 : 1;
    if (std::get<0>(x.t) != std::get<0>(y.t))
        return std::get<0>(x.t) < std::get<0>(y.t) ? -1 : 1;
    if (std::get<1>(x.t) != std::get<1>(y.t))
        return std::get<1>(x.t) < std::get<1>(y.t) ? -1 : 1;
    if (x.u != y.u)
        return x.u < y.u ? -1 : 1;
    return 0;
}

template <typename T>
static void check_operators(const std::string& name, const std::vector<T>& g, bool triples)
{
    for (std::size_t i = 0; i < g.size(); ++i)
        for (std::size_t j = 0; j < g.size(); ++j)
        {
            const T &x = g[i], &y = g[j];
            int r = ref_cmp(x, y);
            stats["pairs:" + name]++;
            if ((x == y) != (r == 0))
                viol(name + ":operator==-disagrees-with-member-tuple", std::to_string(i) + "," + std::to_string(j));
            if ((x != y) != (r != 0))
                viol(name + ":operator!=-disagrees-with-member-tuple", std::to_string(i) + "," + std::to_string(j));
            if ((x < y) != (r < 0))
                viol(name + ":operator<-disagrees-with-member-tuple", std::to_string(i) + "," + std::to_string(j));
            if ((x > y) != (r > 0))
                viol(name + ":operator>-disagrees-with-member-tuple", std::to_string(i) + "," + std::to_string(j));
            if ((x <= y) != (r <= 0))
                viol(name + ":operator<=-disagrees-with-member-tuple", std::to_string(i) + "," + std::to_string(j));
            if ((x >= y) != (r >= 0))
                viol(name + ":operator>=-disagrees-with-member-tuple", std::to_string(i) + "," + std::to_string(j));
            int n = (x < y) + (x == y) + (x > y);
            if (n != 1)
                viol(name + ":trichotomy-broken", std::to_string(i) + "," + std::to_string(j));
            if (x == y)
            {
                stats["equal-pairs:" + name]++;
                if (i != j)
                    stats["equal-but-distinct-pairs"]++;
                if (nitro::lang::hash(x) != nitro::lang::hash(y))
                    viol(name + ":equal-values-hash-differently", std::to_string(i) + "," + std::to_string(j));
            }
        }
    if (!triples)
        return;
    for (std::size_t i = 0; i < g.size(); ++i)
        for (std::size_t j = 0; j < g.size(); ++j)
        {
            if (!(g[i] < g[j]))
                continue;
            for (std::size_t k = 0; k < g.size(); ++k)
            {
                stats["triples"]++;
                if (g[j] < g[k] && !(g[i] < g[k]))
                    viol(name + ":transitivity-broken", std::to_string(i) + "," + std::to_string(j) + "," + std::to_string(k));
            }
        }
}

// pairs of integral types of different widths: the hash must depend on all bits of both components
template <typename T, typename U>
static void check_pair_widths(const std::string& name)
{
    using P = std::pair<T, U>;
    std::vector<unsigned long long> raw = { 0, 1, 2, 5, 0x7f, 0x80, 0xff, 0x100, 0x105, 0xffff, 0x10000, 0x10005,
                                            0x20005, 0x7fffffffULL, 0x80000000ULL, 0xffffffffULL, 0x100000005ULL };
    std::vector<T> ts;
    std::vector<U> us;
    for (auto r : raw)
    {
        T t = static_cast<T>(r);
        U u = static_cast<U>(r);
        bool dt = false, du = false;
        for (auto x : ts)
            dt = dt || x == t;
        for (auto x : us)
            du = du || x == u;
        if (!dt)
            ts.push_back(t);
        if (!du)
            us.push_back(u);
    }
    long pairs0 = 0, coll0 = 0, pairs1 = 0, coll1 = 0;
    for (std::size_t a = 0; a < ts.size(); ++a)
        for (std::size_t b = 0; b < us.size(); ++b)
        {
            P x(ts[a], us[b]);
            for (std::size_t c = a + 1; c < ts.size(); ++c)
            {
                ++pairs0;
                coll0 += nitro::lang::hash(x) == nitro::lang::hash(P(ts[c], us[b]));
            }
            for (std::size_t c = b + 1; c < us.size(); ++c)
            {
                ++pairs1;
                coll1 += nitro::lang::hash(x) == nitro::lang::hash(P(ts[a], us[c]));
            }
            if (!(x == P(ts[a], us[b])) || nitro::lang::hash(x) != nitro::lang::hash(P(ts[a], us[b])))
                viol(name + ":equal-values-hash-differently", "");
        }
    stats["pairs:" + name] = pairs0 + pairs1;
    if (pairs0 && coll0 * 100 > pairs0)
        viol(name + ":hash-ignores-component-0", std::to_string(coll0) + " collisions among " + std::to_string(pairs0));
    if (pairs1 && coll1 * 100 > pairs1)
        viol(name + ":hash-ignores-component-1", std::to_string(coll1) + " collisions among " + std::to_string(pairs1));
}

// hash / equality coherence for arbitrary hashable, equality-comparable values
template <typename T, typename H>
static void check_hash_eq(const std::string& name, const std::vector<T>& g, H&& h)
{
    for (std::size_t i = 0; i < g.size(); ++i)
        for (std::size_t j = 0; j < g.size(); ++j)
        {
            stats["pairs:" + name]++;
            if (g[i] == g[j])
            {
                if (i != j)
                    stats["equal-but-distinct-pairs"]++;
                if (h(g[i]) != h(g[j]))
                    viol(name + ":equal-values-hash-differently", std::to_string(i) + "," + std::to_string(j));
            }
        }
}

// sensitivity: among values that differ in exactly component `pos`, the collision rate must stay
// below 1 % (measured 0 in the design probes, the bound leaves two orders of margin)
template <typename T, typename H, typename D>
static void check_sensitivity(const std::string& name, const std::vector<T>& g, H&& h, D&& differs_only_at, int positions)
{
    for (int pos = 0; pos < positions; ++pos)
    {
        long pairs = 0, coll = 0;
        for (std::size_t i = 0; i < g.size(); ++i)
            for (std::size_t j = i + 1; j < g.size(); ++j)
                if (differs_only_at(g[i], g[j], pos))
                {
                    ++pairs;
                    coll += h(g[i]) == h(g[j]);
                }
        stats["single-component-pairs:" + name + ":" + std::to_string(pos)] = pairs;
        stats["single-component-collisions:" + name + ":" + std::to_string(pos)] = coll;
        if (pairs == 0)
            viol(name + ":sensitivity-grid-has-no-pair-for-position-" + std::to_string(pos), "");
        else if (coll * 100 > pairs)
            viol(name + ":hash-ignores-component-" + std::to_string(pos),
                 std::to_string(coll) + " collisions among " + std::to_string(pairs) + " pairs differing only there");
    }
}

template <typename Set, typename T>
static void check_set(const std::string& name, const std::vector<T>& g, std::uint64_t seed)
{
    Set s;
    std::vector<bool> in(g.size());
    std::vector<T> distinct;
    // membership is decided on distinct values only
    for (auto& v : g)
    {
        bool dup = false;
        for (auto& d : distinct)
            if (d == v)
                dup = true;
        if (!dup)
            distinct.push_back(v);
    }
    in.assign(distinct.size(), false);
    for (std::size_t i = 0; i < distinct.size(); ++i)
        if (splitmix(seed) & 1)
        {
            in[i] = true;
            s.insert(distinct[i]);
            s.insert(distinct[i]); // inserting twice must not duplicate
        }
    std::size_t expect = 0;
    for (bool b : in)
        expect += b;
    if (s.size() != expect)
        viol(name + ":set-size-differs-from-number-of-distinct-inserted-keys",
             std::to_string(s.size()) + " vs " + std::to_string(expect));
    for (std::size_t i = 0; i < distinct.size(); ++i)
    {
        stats["lookups"]++;
        bool found = s.find(distinct[i]) != s.end();
        if (found != in[i])
            viol(name + (in[i] ? ":inserted-key-not-found" : ":foreign-key-found"), std::to_string(i));
    }
}

// long string components: values of one length that differ in a single character (first, middle,
// second to last, last) must hash differently, alone and as a member of a pair / tuple / record,
// and swapping the members of a pair of such strings must change the hash
static void check_long_strings()
{
    using nitro::lang::hash;
    long pairs = 0, coll_plain = 0, coll_tuple = 0, coll_pair = 0, coll_struct = 0, swapped_same = 0, eq_bad = 0;
    for (std::size_t len : { 15u, 16u, 17u, 31u, 32u, 33u, 63u, 64u, 65u, 255u, 256u, 257u, 300u, 1024u, 5000u, 70000u })
    {
        std::vector<std::string> g;
        std::string base(len, 'k');
        for (std::size_t i = 0; i < len; ++i)
            base[i] = static_cast<char>('a' + (i * 7) % 23);
        for (std::size_t at : { std::size_t(0), len / 2, len - 2, len - 1 })
            for (char c : { 'A', 'B', 'C' })
            {
                std::string v = base;
                v[at] = c;
                g.push_back(v);
            }
        for (std::size_t i = 0; i < g.size(); ++i)
        {
            std::string copy(g[i].c_str(), g[i].size());
            if (hash(copy) != hash(g[i]) || hash(std::make_tuple(1, copy)) != hash(std::make_tuple(1, g[i])))
                ++eq_bad;
            for (std::size_t j = i + 1; j < g.size(); ++j)
            {
                if (g[i] == g[j])
                    continue;
                ++pairs;
                coll_plain += hash(g[i]) == hash(g[j]);
                coll_tuple += hash(std::make_tuple(7, g[i], 'x')) == hash(std::make_tuple(7, g[j], 'x'));
                coll_pair += hash(std::make_pair(g[i], 3)) == hash(std::make_pair(g[j], 3));
                coll_struct += hash(B(g[i], 0.5, 1)) == hash(B(g[j], 0.5, 1));
                swapped_same += hash(std::make_pair(g[i], g[j])) == hash(std::make_pair(g[j], g[i]));
            }
        }
    }
    stats["long-string-pairs"] = pairs;
    stats["long-string-collisions"] = coll_plain + coll_tuple + coll_pair + coll_struct;
    if (eq_bad)
        viol("long-string:equal-values-hash-differently", std::to_string(eq_bad));
    if (coll_plain * 100 > pairs)
        viol("long-string:hash-ignores-characters", std::to_string(coll_plain) + " collisions among " + std::to_string(pairs) + " pairs of equal length differing in one character");
    if (coll_tuple * 100 > pairs)
        viol("tuple<int,long-string,char>:hash-ignores-component-1", std::to_string(coll_tuple) + " of " + std::to_string(pairs));
    if (coll_pair * 100 > pairs)
        viol("pair<long-string,int>:hash-ignores-component-0", std::to_string(coll_pair) + " of " + std::to_string(pairs));
    if (coll_struct * 100 > pairs)
        viol("struct<long-string,double,int>:hash-ignores-component-0", std::to_string(coll_struct) + " of " + std::to_string(pairs));
    if (swapped_same * 100 > pairs)
        viol("pair<long-string,long-string>:hash-ignores-order", std::to_string(swapped_same) + " of " + std::to_string(pairs));
}

// other component TYPES: bool, char, 64 bit unsigned (values that differ in the high half only), float, the
// empty tuple, one-element and nested tuples, pairs of pairs, a variant with a repeated alternative type
struct D : nitro::lang::tuple_operators<D>
{
    bool b;
    char c;
    unsigned long long u;
    float f;
    D(bool b, char c, unsigned long long u, float f) : b(b), c(c), u(u), f(f)
    {
    }
    auto as_tuple() const
    {
        return std::tie(b, c, u, f);
    }
};

static int ref_cmp(const D& x, const D& y)
{
    if (x.b != y.b)
        return x.b < y.b ? -1 : 1;
    if (x.c != y.c)
        return x.c < y.c ? -1 : 1;
    if (x.u != y.u)
        return x.u < y.u ? -1 : 1;
    if (x.f < y.f)
        return -1;
    if (y.f < x.f)
        return 1;
    return 0;
}

// wide and UTF-16 / UTF-32 strings: every code unit enters the hash, alone and as a component
template <typename S>
static void wide_string_case(const std::string& name)
{
    using nitro::lang::hash;
    using Ch = typename S::value_type;
    std::vector<S> g;
    for (std::size_t len : { std::size_t(1), std::size_t(3), std::size_t(8), std::size_t(40) })
    {
        S base(len, Ch('m'));
        for (std::size_t i = 0; i < len; ++i)
            base[i] = static_cast<Ch>('a' + (i * 5) % 23);
        for (std::size_t at : { std::size_t(0), len / 2, len - 1 })
            for (Ch c : { Ch('A'), Ch('B'), Ch(0x20AC), Ch(0x00E4) })
            {
                S v = base;
                v[at] = c;
                if (std::find(g.begin(), g.end(), v) == g.end())
                    g.push_back(v);
            }
    }
    long pairs = 0, coll = 0, coll_t = 0, coll_p = 0, swapped = 0;
    for (std::size_t i = 0; i < g.size(); ++i)
    {
        S copy(g[i].c_str(), g[i].size());
        if (hash(copy) != hash(g[i]))
            viol(name + ":equal-values-hash-differently", std::to_string(i));
        for (std::size_t j = i + 1; j < g.size(); ++j)
        {
            if (g[i].size() != g[j].size())
                continue;
            ++pairs;
            coll += hash(g[i]) == hash(g[j]);
            coll_t += hash(std::make_tuple(1, g[i])) == hash(std::make_tuple(1, g[j]));
            coll_p += hash(std::make_pair(g[i], 'x')) == hash(std::make_pair(g[j], 'x'));
            swapped += hash(std::make_pair(g[i], g[j])) == hash(std::make_pair(g[j], g[i]));
        }
    }
    stats["pairs:" + name] = pairs;
    if (coll * 100 > pairs)
        viol(name + ":hash-ignores-code-units", std::to_string(coll) + " collisions among " + std::to_string(pairs) + " pairs of equal length");
    if (coll_t * 100 > pairs)
        viol("tuple<int," + name + ">:hash-ignores-component-1", std::to_string(coll_t) + " of " + std::to_string(pairs));
    if (coll_p * 100 > pairs)
        viol("pair<" + name + ",char>:hash-ignores-component-0", std::to_string(coll_p) + " of " + std::to_string(pairs));
    if (swapped * 100 > pairs)
        viol("pair<" + name + "," + name + ">:hash-ignores-order", std::to_string(swapped) + " of " + std::to_string(pairs));
    nitro::lang::unordered_set<S> set;
    for (std::size_t i = 0; i < g.size(); i += 2)
        set.insert(g[i]);
    for (std::size_t i = 0; i < g.size(); ++i)
    {
        stats["lookups"]++;
        if ((set.count(g[i]) == 1) != (i % 2 == 0))
            viol("unordered_set<" + name + ">" + (i % 2 == 0 ? ":inserted-key-not-found" : ":foreign-key-found"), std::to_string(i));
    }
}

// equal values whose PADDING bytes differ (objects built member-wise in storage with different previous
// contents: a reused stack slot, a recycled heap block) must hash equal and be found in hash containers
template <typename T, typename... Args>
static void padding_case(const std::string& name, Args... args)
{
    using nitro::lang::hash;
    alignas(T) unsigned char b1[sizeof(T)], b2[sizeof(T)], b3[sizeof(T)];
    std::memset(b1, 0x00, sizeof b1);
    std::memset(b2, 0xA5, sizeof b2);
    std::memset(b3, 0xFF, sizeof b3);
    T* x = new (b1) T(args...);
    T* y = new (b2) T(args...);
    T* z = new (b3) T(args...);
    stats["padding-cases"]++;
    if (!(*x == *y) || !(*y == *z))
        viol(name + ":equal-construction-gives-unequal-values", "");
    else if (hash(*x) != hash(*y) || hash(*y) != hash(*z))
        viol(name + ":equal-values-hash-differently", "the objects differ in their padding bytes only");
    else
    {
        nitro::lang::unordered_set<T> set;
        set.insert(*x);
        if (set.count(*y) != 1 || set.count(*z) != 1)
            viol("unordered_set<" + name + ">:inserted-key-not-found", "equal value with other padding bytes");
    }
    x->~T();
    y->~T();
    z->~T();
}

static void check_padding()
{
    padding_case<std::tuple<char, int>>("tuple<char,int>", 'a', 7);
    padding_case<std::tuple<std::int16_t, std::int64_t>>("tuple<int16,int64>", std::int16_t(3), std::int64_t(1) << 40);
    padding_case<std::tuple<bool, std::uint64_t, std::uint8_t>>("tuple<bool,uint64,uint8>", true, std::uint64_t(9), std::uint8_t(200));
    padding_case<std::pair<char, long>>("pair<char,long>", 'z', 123456789L);
    padding_case<std::pair<std::pair<char, int>, short>>("pair<pair<char,int>,short>", std::make_pair('q', 5), short(2));
    padding_case<std::tuple<char, std::tuple<short, long>, char>>("tuple<char,tuple<short,long>,char>", 'c', std::make_tuple(short(1), 2L), 'd');
    padding_case<std::variant<char, long>>("variant<char,long>", 'v');
    padding_case<A>("struct<int8,int,longlong>", std::int8_t(1), 2, 3LL);
    padding_case<D>("struct<bool,char,uint64,float>", true, 'x', 5ULL, 0.5f);
}

static void check_more_types(std::uint64_t seed)
{
    check_padding();
    wide_string_case<std::wstring>("wstring");
    wide_string_case<std::u16string>("u16string");
    wide_string_case<std::u32string>("u32string");
    using nitro::lang::hash;
    std::vector<D> gd;
    for (bool b : { false, true })
        for (char c : { '\0', 'a', '\x7f', static_cast<char>(0x80) })
            for (unsigned long long u : { 0ULL, 1ULL, 1ULL << 32, (1ULL << 32) + 1, 1ULL << 63, ~0ULL })
                for (float f : { 0.0f, 0.5f, -2.0f })
                    gd.emplace_back(b, c, u, f);
    check_operators("struct<bool,char,uint64,float>", gd, false);
    check_sensitivity("struct<bool,char,uint64,float>", gd, [](const D& x) { return hash(x); },
                      [](const D& x, const D& y, int pos) {
                          bool d0 = x.b != y.b, d1 = x.c != y.c, d2 = x.u != y.u, d3 = x.f != y.f;
                          return (d0 + d1 + d2 + d3) == 1 && (pos == 0 ? d0 : pos == 1 ? d1 : pos == 2 ? d2 : d3);
                      },
                      4);
    check_set<nitro::lang::unordered_set<D>>("unordered_set<struct<bool,char,uint64,float>>", gd, seed + 11);

    using T1 = std::tuple<unsigned long long>;
    std::vector<T1> g1;
    for (unsigned long long u : { 0ULL, 1ULL, 1ULL << 32, (1ULL << 32) + 1, 1ULL << 63, ~0ULL, 2ULL, 1ULL << 33 })
        g1.emplace_back(u);
    check_hash_eq("tuple<uint64>", g1, [](const T1& t) { return hash(t); });
    {
        std::set<std::size_t> hs;
        for (auto& t : g1)
            hs.insert(hash(t));
        if (hs.size() + 1 < g1.size())
            viol("tuple<uint64>:hash-ignores-component-0", std::to_string(hs.size()) + " distinct hashes for " + std::to_string(g1.size()) + " values");
    }
    check_set<nitro::lang::unordered_set<T1>>("unordered_set<tuple<uint64>>", g1, seed + 12);

    using TN = std::tuple<std::tuple<int, bool>, std::pair<std::pair<char, int>, std::tuple<>>>;
    std::vector<TN> gn;
    for (int a : { 0, 1, -1 })
        for (bool b : { false, true })
            for (char c : { 'x', 'y' })
                for (int d : { 0, 65536 })
                    gn.emplace_back(std::make_tuple(a, b), std::make_pair(std::make_pair(c, d), std::tuple<>()));
    check_hash_eq("nested-tuple<tuple<int,bool>,pair<pair<char,int>,tuple<>>>", gn, [](const TN& t) { return hash(t); });
    check_sensitivity("nested-tuple", gn, [](const TN& x) { return hash(x); },
                      [](const TN& x, const TN& y, int pos) {
                          bool d0 = std::get<0>(std::get<0>(x)) != std::get<0>(std::get<0>(y));
                          bool d1 = std::get<1>(std::get<0>(x)) != std::get<1>(std::get<0>(y));
                          bool d2 = std::get<1>(x).first.first != std::get<1>(y).first.first;
                          bool d3 = std::get<1>(x).first.second != std::get<1>(y).first.second;
                          return (d0 + d1 + d2 + d3) == 1 && (pos == 0 ? d0 : pos == 1 ? d1 : pos == 2 ? d2 : d3);
                      },
                      4);
    check_set<nitro::lang::unordered_set<TN>>("unordered_set<nested-tuple>", gn, seed + 13);
    if (hash(std::tuple<>()) != hash(std::tuple<>()))
        viol("tuple<>:equal-values-hash-differently", "");

    // a variant whose alternatives have the same type: values are equal iff index AND value are equal
    using VR = std::variant<int, int, std::string, std::string>;
    std::vector<VR> gv;
    for (int v : { 0, 1, 7 })
    {
        gv.emplace_back(std::in_place_index<0>, v);
        gv.emplace_back(std::in_place_index<1>, v);
    }
    for (const char* t : { "", "a", "7" })
    {
        gv.emplace_back(std::in_place_index<2>, t);
        gv.emplace_back(std::in_place_index<3>, t);
    }
    check_hash_eq("variant<int,int,string,string>", gv, [](const VR& v) { return hash(v); });
    check_set<nitro::lang::unordered_set<VR>>("unordered_set<variant<int,int,string,string>>", gv, seed + 14);
    {
        // different values of one alternative must not collide systematically
        std::set<std::size_t> hs;
        for (auto& v : gv)
            if (v.index() == 1 || v.index() == 3)
                hs.insert(hash(v));
        if (hs.size() < 5)
            viol("variant<int,int,string,string>:hash-ignores-the-value-of-a-repeated-alternative", std::to_string(hs.size()));
    }
    stats["other-component-type-grids"] = 4;
}

int main(int argc, char** argv)
{
    int scale = argc > 1 ? std::atoi(argv[1]) : 1;
    std::uint64_t seed = argc > 2 ? std::strtoull(argv[2], nullptr, 10) : 1;
    using nitro::lang::hash;

    // --- A: integers of several widths
    std::vector<A> ga;
    {
        std::vector<int> va = scale > 1 ? std::vector<int>{ -128, -1, 0, 1, 2, 127 } : std::vector<int>{ -128, -1, 0, 127 };
        if (scale > 2)
            va = { -128, -100, -2, -1, 0, 1, 2, 64, 127 };
        std::vector<int> vb = scale > 1 ? std::vector<int>{ -2147483647 - 1, -1, 0, 1, 65536, 2147483647 } :
                                          std::vector<int>{ -2147483647 - 1, 0, 1, 2147483647 };
        std::vector<long long> vc = scale > 1 ?
                                        std::vector<long long>{ -9223372036854775807LL - 1, -1, 0, 1, 4294967296LL, 9223372036854775807LL } :
                                        std::vector<long long>{ -9223372036854775807LL - 1, 0, 4294967296LL, 9223372036854775807LL };
        for (int a : va)
            for (int b : vb)
                for (long long c : vc)
                    ga.emplace_back(static_cast<std::int8_t>(a), b, c);
    }
    check_operators("struct<int8,int,longlong>", ga, true);
    check_sensitivity("struct<int8,int,longlong>", ga, [](const A& x) { return hash(x); },
                      [](const A& x, const A& y, int pos) {
                          bool da = x.a != y.a, db = x.b != y.b, dc = x.c != y.c;
                          return (da + db + dc) == 1 && (pos == 0 ? da : pos == 1 ? db : dc);
                      },
                      3);
    check_set<nitro::lang::unordered_set<A>>("unordered_set<struct<int8,int,longlong>>", ga, seed);
    check_long_strings();
    check_more_types(seed);

    // --- B: string / double (signed zeros) / int
    std::vector<B> gb;
    {
        std::vector<std::string> vs = { "", "a", "b", "ab", "ba", std::string("a\0b", 3), "a " };
        std::vector<double> vd = { -1.5, -0.0, 0.0, 0.5, 1e300 };
        std::vector<int> vi = { -1, 0, 7 };
        if (scale > 1)
        {
            vs.push_back("abcdefghijklmnopqrstuvwxyz0123456789");
            vd.push_back(-1e-300);
            vi.push_back(100000);
        }
        for (auto& s : vs)
            for (double d : vd)
                for (int i : vi)
                    gb.emplace_back(s, d, i);
    }
    check_operators("struct<string,double,int>", gb, true);
    check_sensitivity("struct<string,double,int>", gb, [](const B& x) { return hash(x); },
                      [](const B& x, const B& y, int pos) {
                          bool da = x.s != y.s, db = x.d != y.d, dc = x.i != y.i;
                          return (da + db + dc) == 1 && (pos == 0 ? da : pos == 1 ? db : dc);
                      },
                      3);
    check_set<nitro::lang::unordered_set<B>>("unordered_set<struct<string,double,int>>", gb, seed + 1);

    // --- the hash follows the members: an object that is modified after it has been hashed (or used as a
    // key) must hash like a freshly built equal value
    {
        long checked = 0;
        for (std::size_t i = 0; i < ga.size(); ++i)
        {
            A x = ga[i];
            (void)hash(x);
            const A& y = ga[(i * 7 + 3) % ga.size()];
            x.a = y.a;
            x.b = y.b;
            x.c = y.c;
            ++checked;
            if (!(x == y) || hash(x) != hash(y))
                viol("struct<int8,int,longlong>:hash-stale-after-member-change", std::to_string(i));
            A z = ga[i];
            (void)hash(z);
            z = y; // whole-object assignment
            if (!(z == y) || hash(z) != hash(y))
                viol("struct<int8,int,longlong>:hash-stale-after-assignment", std::to_string(i));
        }
        for (std::size_t i = 0; i < gb.size(); ++i)
        {
            B x = gb[i];
            nitro::lang::unordered_set<B> probe;
            probe.insert(x);
            const B& y = gb[(i * 5 + 1) % gb.size()];
            x.s = y.s;
            x.d = y.d;
            x.i = y.i;
            ++checked;
            if (!(x == y) || hash(x) != hash(y))
                viol("struct<string,double,int>:hash-stale-after-member-change", std::to_string(i));
            B m = gb[i];
            (void)hash(m);
            B moved_to(std::move(m));
            if (!(moved_to == gb[i]) || hash(moved_to) != hash(gb[i]))
                viol("struct<string,double,int>:hash-wrong-after-move", std::to_string(i));
        }
        stats["mutate-after-hash-checks"] = checked;
    }

    // --- C: nested pair + tuple
    std::vector<C> gc;
    for (int a : { 0, 1, -5 })
        for (const char* s : { "", "x", "xy" })
            for (int b : { 0, 9 })
                for (char ch : { 'a', 'z' })
                    for (unsigned u : { 0u, 1u, 4000000000u })
                        gc.emplace_back(std::make_pair(a, std::string(s)), std::make_tuple(b, ch), u);
    check_operators("struct<pair,tuple,unsigned>", gc, scale > 1);
    check_sensitivity("struct<pair,tuple,unsigned>", gc, [](const C& x) { return hash(x); },
                      [](const C& x, const C& y, int pos) {
                          bool da = x.p != y.p, db = x.t != y.t, dc = x.u != y.u;
                          return (da + db + dc) == 1 && (pos == 0 ? da : pos == 1 ? db : dc);
                      },
                      3);

    // --- raw tuples: sensitivity to each position and to swaps
    using T3 = std::tuple<int, int, int>;
    std::vector<T3> gt;
    {
        std::vector<int> v = scale > 1 ? std::vector<int>{ -3, -1, 0, 1, 2, 5, 8, 1000, 65536 } :
                                         std::vector<int>{ -1, 0, 1, 2, 5, 1000 };
        if (scale > 2)
            v = { -65536, -1000, -3, -2, -1, 0, 1, 2, 3, 5, 8, 64, 1000, 65536, 1 << 30 };
        for (int a : v)
            for (int b : v)
                for (int c : v)
                    gt.emplace_back(a, b, c);
    }
    check_hash_eq("tuple<int,int,int>", gt, [](const T3& t) { return hash(t); });
    check_sensitivity("tuple<int,int,int>", gt, [](const T3& t) { return hash(t); },
                      [](const T3& x, const T3& y, int pos) {
                          bool d0 = std::get<0>(x) != std::get<0>(y), d1 = std::get<1>(x) != std::get<1>(y),
                               d2 = std::get<2>(x) != std::get<2>(y);
                          return (d0 + d1 + d2) == 1 && (pos == 0 ? d0 : pos == 1 ? d1 : d2);
                      },
                      3);
    {
        long pairs = 0, coll = 0;
        for (auto& t : gt)
        {
            int a = std::get<0>(t), b = std::get<1>(t), c = std::get<2>(t);
            if (a != b)
            {
                ++pairs;
                coll += hash(t) == hash(T3(b, a, c));
            }
            if (b != c)
            {
                ++pairs;
                coll += hash(t) == hash(T3(a, c, b));
            }
            if (a != c)
            {
                ++pairs;
                coll += hash(t) == hash(T3(c, b, a));
            }
        }
        stats["swap-pairs"] = pairs;
        stats["swap-collisions"] = coll;
        if (coll * 100 > pairs)
            viol("tuple<int,int,int>:hash-insensitive-to-component-order",
                 std::to_string(coll) + " collisions among " + std::to_string(pairs) + " swaps");
    }
    check_set<nitro::lang::unordered_set<T3>>("unordered_set<tuple<int,int,int>>", gt, seed + 2);

    // --- pairs
    using P = std::pair<int, std::string>;
    std::vector<P> gp;
    for (int a : { -1, 0, 1, 2, 77, 100000 })
        for (const char* s : { "", "a", "b", "ab", "ba", "abc" })
            gp.emplace_back(a, s);
    check_hash_eq("pair<int,string>", gp, [](const P& p) { return hash(p); });
    check_sensitivity("pair<int,string>", gp, [](const P& p) { return hash(p); },
                      [](const P& x, const P& y, int pos) {
                          bool d0 = x.first != y.first, d1 = x.second != y.second;
                          return (d0 + d1) == 1 && (pos == 0 ? d0 : d1);
                      },
                      2);
    {
        using PI = std::pair<int, int>;
        long pairs = 0, coll = 0;
        for (int a = -6; a < 30; ++a)
            for (int b = a + 1; b < 30; ++b)
            {
                ++pairs;
                coll += hash(PI(a, b)) == hash(PI(b, a));
            }
        stats["pair-swap-pairs"] = pairs;
        stats["pair-swap-collisions"] = coll;
        if (coll * 100 > pairs)
            viol("pair<int,int>:hash-insensitive-to-component-order", std::to_string(coll) + "/" + std::to_string(pairs));
    }
    {
        nitro::lang::unordered_map<P, int> m;
        std::uint64_t s = seed + 3;
        std::vector<int> in(gp.size(), 0);
        for (std::size_t i = 0; i < gp.size(); ++i)
            if (splitmix(s) & 1)
            {
                in[i] = 1;
                m[gp[i]] = static_cast<int>(i);
            }
        for (std::size_t i = 0; i < gp.size(); ++i)
        {
            stats["lookups"]++;
            auto it = m.find(gp[i]);
            if ((it != m.end()) != (in[i] == 1))
                viol(std::string("unordered_map<pair<int,string>,int>") + (in[i] ? ":inserted-key-not-found" : ":foreign-key-found"),
                     std::to_string(i));
            else if (it != m.end() && it->second != static_cast<int>(i))
                viol("unordered_map<pair<int,string>,int>:wrong-value-for-key", std::to_string(i));
        }
    }

    check_pair_widths<std::uint8_t, std::uint32_t>("pair<uint8,uint32>");
    check_pair_widths<std::uint16_t, std::uint32_t>("pair<uint16,uint32>");
    check_pair_widths<std::int8_t, std::int32_t>("pair<int8,int32>");
    check_pair_widths<char, short>("pair<char,short>");
    check_pair_widths<std::uint32_t, std::uint16_t>("pair<uint32,uint16>");
    check_pair_widths<std::uint32_t, std::uint64_t>("pair<uint32,uint64>");
    check_pair_widths<std::uint64_t, std::uint8_t>("pair<uint64,uint8>");
    check_pair_widths<short, long long>("pair<short,longlong>");

    // --- variants (only the active alternative is hashed; equality also compares the index)
    using V = std::variant<int, std::string, double>;
    std::vector<V> gv;
    for (int a : { -1, 0, 1, 42 })
        gv.emplace_back(a);
    for (const char* s : { "", "0", "1", "42", "a" })
        gv.emplace_back(std::string(s));
    for (double d : { -0.0, 0.0, 1.0, 42.0, 0.5 })
        gv.emplace_back(d);
    check_hash_eq("variant<int,string,double>", gv, [](const V& v) { return hash(v); });
    {
        // values of the same alternative that differ must not collide systematically
        long pairs = 0, coll = 0;
        for (std::size_t i = 0; i < gv.size(); ++i)
            for (std::size_t j = i + 1; j < gv.size(); ++j)
                if (gv[i].index() == gv[j].index() && !(gv[i] == gv[j]))
                {
                    ++pairs;
                    coll += hash(gv[i]) == hash(gv[j]);
                }
        stats["variant-same-alternative-pairs"] = pairs;
        stats["variant-same-alternative-collisions"] = coll;
        if (coll * 100 > pairs)
            viol("variant<int,string,double>:hash-ignores-the-value-of-an-alternative",
                 std::to_string(coll) + " collisions among " + std::to_string(pairs) + " pairs");
    }
    check_set<nitro::lang::unordered_set<V>>("unordered_set<variant<int,string,double>>", gv, seed + 4);
    {
        // nested: tuple of variant and pair
        using N = std::tuple<V, std::pair<int, int>>;
        std::vector<N> gn;
        for (auto& v : gv)
            for (int a : { 0, 1 })
                for (int b : { 0, 1, 2 })
                    gn.emplace_back(v, std::make_pair(a, b));
        check_hash_eq("tuple<variant,pair<int,int>>", gn, [](const N& n) { return hash(n); });
        check_set<nitro::lang::unordered_set<N>>("unordered_set<tuple<variant,pair<int,int>>>", gn, seed + 5);
    }

    // --- smart pointers: hash by pointee, equality by address
    {
        std::vector<std::shared_ptr<std::string>> gs;
        for (const char* s : { "", "a", "b", "a", "" })
            gs.push_back(std::make_shared<std::string>(s));
        auto copy = gs;
        for (auto& p : copy)
            gs.push_back(p); // equal (same pointee) but distinct shared_ptr objects
        check_hash_eq("shared_ptr<string>", gs, [](const std::shared_ptr<std::string>& p) { return hash(p); });
        for (std::size_t i = 0; i < gs.size(); ++i)
            if (hash(gs[i]) != hash(*gs[i]))
                viol("shared_ptr<string>:hash-is-not-the-pointee-hash", std::to_string(i));
        nitro::lang::unordered_set<std::shared_ptr<std::string>> set;
        // pointers 3 and 4 are NOT inserted although their pointees equal those of 1 and 0: keys are the pointers
        for (std::size_t i = 0; i < 3; ++i)
            if (!set.insert(gs[i]).second)
                viol("unordered_set<shared_ptr<string>>:insert-of-a-new-key-refused", std::to_string(i));
        for (std::size_t i = 0; i < gs.size(); ++i)
        {
            stats["lookups"]++;
            bool want = (i % 5) < 3;
            if ((set.find(gs[i]) != set.end()) != want)
                viol(std::string("unordered_set<shared_ptr<string>>") + (want ? ":inserted-key-not-found" : ":foreign-key-found"),
                     std::to_string(i));
        }
        // the hash follows the POINTEE: after the pointee is modified through the pointer, and for a new
        // object that the allocator places at the address of a destroyed one, the hash is the one of the
        // current value (an address-keyed memo would be stale)
        {
            long checked = 0;
            auto sp = std::make_shared<std::string>("first");
            auto up = std::make_unique<int>(1);
            for (int round = 0; round < 50; ++round)
            {
                (void)hash(sp);
                (void)hash(up);
                *sp = "value " + std::to_string(round);
                *up = round * 7 + 2;
                ++checked;
                if (hash(sp) != hash(*sp))
                    viol("shared_ptr<string>:hash-stale-after-pointee-change", std::to_string(round));
                if (hash(up) != hash(*up))
                    viol("unique_ptr<int>:hash-stale-after-pointee-change", std::to_string(round));
            }
            long reused = 0;
            const void* last_s = nullptr;
            const void* last_u = nullptr;
            nitro::lang::unordered_set<std::shared_ptr<std::string>> keys;
            std::vector<std::shared_ptr<std::string>> kept;
            for (int round = 0; round < 200; ++round)
            {
                auto a = std::make_shared<std::string>("obj " + std::to_string(round));
                auto u = std::make_unique<long>(round * 3L);
                reused += (a.get() == last_s) + (u.get() == last_u);
                last_s = a.get();
                last_u = u.get();
                ++checked;
                if (hash(a) != hash(*a))
                    viol("shared_ptr<string>:hash-stale-at-a-reused-address", std::to_string(round));
                if (hash(u) != hash(*u))
                    viol("unique_ptr<long>:hash-stale-at-a-reused-address", std::to_string(round));
                if (round % 10 == 0)
                {
                    keys.insert(a);
                    kept.push_back(a);
                }
            }
            for (auto& k : kept)
            {
                (void)hash(up); // something else hashed in between
                stats["lookups"]++;
                if (keys.find(k) == keys.end())
                    viol("unordered_set<shared_ptr<string>>:inserted-key-not-found", "key created at a recycled address");
            }
            stats["pointer-hash-after-change-or-address-reuse-checks"] = checked;
            stats["pointer-addresses-reused"] = reused;
        }
        std::vector<std::unique_ptr<int>> gu;
        for (int v : { 0, 1, 1, 5, -7 })
            gu.push_back(std::make_unique<int>(v));
        for (std::size_t i = 0; i < gu.size(); ++i)
            for (std::size_t j = 0; j < gu.size(); ++j)
            {
                stats["pairs:unique_ptr<int>"]++;
                if (gu[i] == gu[j] && hash(gu[i]) != hash(gu[j]))
                    viol("unique_ptr<int>:equal-values-hash-differently", "");
                if (hash(gu[i]) != hash(*gu[i]))
                    viol("unique_ptr<int>:hash-is-not-the-pointee-hash", "");
            }
        nitro::lang::unordered_set<std::unique_ptr<int>> us;
        std::vector<const std::unique_ptr<int>*> where;
        for (int v : { 3, 4, 4 })
            where.push_back(&*us.insert(std::make_unique<int>(v)).first);
        if (us.size() != 3)
            viol("unordered_set<unique_ptr<int>>:distinct-objects-with-equal-pointees-merged", "");
        for (auto* p : where)
        {
            stats["lookups"]++;
            if (us.find(*p) == us.end())
                viol("unordered_set<unique_ptr<int>>:inserted-key-not-found", "");
        }
        auto foreign = std::make_unique<int>(4);
        stats["lookups"]++;
        if (us.find(foreign) != us.end())
            viol("unordered_set<unique_ptr<int>>:foreign-key-found", "");
    }

    {
        B x("a", -0.0, 7), y("a", 0.0, 7), z("a", 0.5, 7);
        std::printf("SAMPLE struct<string,double,int>{a,-0.0,7} == {a,+0.0,7}: %d, hashes %zx %zx; {a,0.5,7} hash %zx\n",
                    int(x == y), hash(x), hash(y), hash(z));
        std::printf("SAMPLE tuple<int,int,int> hash(1,2,5)=%zx hash(2,1,5)=%zx hash(1,2,8)=%zx\n", hash(T3(1, 2, 5)),
                    hash(T3(2, 1, 5)), hash(T3(1, 2, 8)));
        A a1(1, 0, 4294967296LL), a2(1, 1, 0);
        std::printf("SAMPLE struct<int8,int,longlong>{1,0,2^32} < {1,1,0}: %d (lexicographic reference: %d)\n", int(a1 < a2),
                    int(ref_cmp(a1, a2) < 0));
    }
    for (auto& v : violations)
        std::printf("V %s %s\n", v.first.c_str(), v.second.c_str());
    std::string st = "STATS";
    for (auto& kv : stats)
    {
        std::string k = kv.first;
        for (auto& c : k)
            if (c == ' ')
                c = '_';
        st += " " + k + "=" + std::to_string(kv.second);
    }
    std::printf("%s\n", st.c_str());
    return 0;
}
