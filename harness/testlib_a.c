/* tiny shared object for the dl histories (C19) */
static int calls;
double nitro_verif_fa(double x)
{
    ++calls;
    return x + 1.0;
}
double nitro_verif_common(double x)
{
    return x + 100.0;
}
