// compile probe: nitro::lang::join over iterators that are not random access (a std::list, a single-pass
// std::istream_iterator).  The template names its parameter InputIterator; when this does not compile the
// string driver is built without those operations and the check reports the fact.
#include <nitro/lang/string.hpp>

#include <iterator>
#include <list>
#include <sstream>
#include <string>

int main()
{
    std::list<std::string> l{ "a", "b" };
    std::istringstream in("c d");
    std::string r = nitro::lang::join(l.begin(), l.end(), ",") + "|" +
                    nitro::lang::join(std::istream_iterator<std::string>(in), std::istream_iterator<std::string>(), ",");
    return r == "a,b|c,d" ? 0 : 1;
}
