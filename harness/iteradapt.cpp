// C20: enumerate and reverse visit every element once, in the right order, in place.
//   iteradapt <maxlen>
// Every container kind is its own case (BEGIN/END markers) so that a sanitizer report is
// attributed to the kind that was being iterated.
#include <forward_list>
#include <memory>
#include <set>
#include <string_view>

#include <nitro/lang/enumerate.hpp>
#include <nitro/lang/fixed_vector.hpp>
#include <nitro/lang/reverse.hpp>

#include "drv.hpp"

#include <array>
#include <deque>
#include <list>
#include <map>
#include <utility>
#include <vector>

using namespace drv;
using nitro::lang::enumerate;
using nitro::lang::reverse;

static std::map<std::string, long> stats;
static std::vector<std::string> found;

static void viol(const std::string& key, const std::string& detail)
{
    for (auto& f : found)
        if (f.compare(0, key.size() + 1, key + " ") == 0)
            return;
    found.push_back(key + " " + detail);
}

static int val(std::size_t i)
{
    return static_cast<int>(i * 7 + 3); // distinct for every index
}

template <typename T>
static int as_int(const T& v)
{
    return static_cast<int>(v);
}
template <typename K, typename V>
static int as_int(const std::pair<K, V>& p)
{
    return p.second;
}

// builders ---------------------------------------------------------------------------------
template <typename C>
struct make;
template <>
struct make<std::vector<int>>
{
    static std::vector<int> of(std::size_t n)
    {
        std::vector<int> c;
        for (std::size_t i = 0; i < n; ++i)
            c.push_back(val(i));
        return c;
    }
};
template <>
struct make<std::list<int>>
{
    static std::list<int> of(std::size_t n)
    {
        std::list<int> c;
        for (std::size_t i = 0; i < n; ++i)
            c.push_back(val(i));
        return c;
    }
};
template <>
struct make<std::deque<int>>
{
    static std::deque<int> of(std::size_t n)
    {
        std::deque<int> c;
        for (std::size_t i = 0; i < n; ++i)
            c.push_back(val(i));
        return c;
    }
};
template <>
struct make<std::map<int, int>>
{
    static std::map<int, int> of(std::size_t n)
    {
        std::map<int, int> c;
        for (std::size_t i = 0; i < n; ++i)
            c[static_cast<int>(i)] = val(i);
        return c;
    }
};
template <>
struct make<nitro::lang::fixed_vector<int>>
{
    static nitro::lang::fixed_vector<int> of(std::size_t n)
    {
        nitro::lang::fixed_vector<int> c(n + 2);
        for (std::size_t i = 0; i < n; ++i)
            c.emplace_back(val(i));
        return c;
    }
};
template <std::size_t N>
struct make<std::array<int, N>>
{
    static std::array<int, N> of(std::size_t)
    {
        std::array<int, N> c{};
        for (std::size_t i = 0; i < N; ++i)
            c[i] = val(i);
        return c;
    }
};

template <typename E>
static int* addr_of(E& e)
{
    return &e;
}
template <typename K, typename V>
static int* addr_of(std::pair<const K, V>& p)
{
    return &p.second;
}
template <typename E>
static const int* addr_of(const E& e)
{
    return &e;
}
template <typename K, typename V>
static const int* addr_of(const std::pair<const K, V>& p)
{
    return &p.second;
}

// enumerate --------------------------------------------------------------------------------
template <typename C>
static void enum_checks(const std::string& kind, std::size_t n)
{
    // lvalue: order, indices, aliasing, writes
    {
        C c = make<C>::of(n);
        std::vector<const int*> addrs;
        for (auto& x : c)
            addrs.push_back(addr_of(x));
        std::size_t i = 0;
        for (auto&& e : enumerate(c))
        {
            if (i >= n)
            {
                viol("enumerate:" + kind + ":lvalue:visits-more-than-size", std::to_string(n));
                break;
            }
            if (e.index() != i)
                viol("enumerate:" + kind + ":lvalue:wrong-index", "position " + std::to_string(i) + " index " + std::to_string(e.index()));
            if (as_int(e.value()) != val(i))
                viol("enumerate:" + kind + ":lvalue:wrong-value", "position " + std::to_string(i));
            if (addr_of(e.value()) != addrs[i])
                viol("enumerate:" + kind + ":lvalue:value-does-not-alias-the-element", "position " + std::to_string(i));
            *addr_of(e.value()) = -val(i) - 1;
            stats["aliasing-checks"]++;
            ++i;
        }
        if (i != n)
            viol("enumerate:" + kind + ":lvalue:visits-fewer-than-size", std::to_string(i) + " of " + std::to_string(n));
        i = 0;
        for (auto& x : c)
        {
            if (as_int(x) != -val(i) - 1)
                viol("enumerate:" + kind + ":lvalue:write-not-visible-in-container", "position " + std::to_string(i));
            stats["writes-verified"]++;
            ++i;
        }
        stats["elements-visited"] += static_cast<long>(n);
    }
    // const lvalue
    {
        const C c = make<C>::of(n);
        std::vector<const int*> addrs;
        for (auto& x : c)
            addrs.push_back(addr_of(x));
        std::size_t i = 0;
        for (auto&& e : enumerate(c))
        {
            if (i >= n)
            {
                viol("enumerate:" + kind + ":const:visits-more-than-size", std::to_string(n));
                break;
            }
            if (e.index() != i)
                viol("enumerate:" + kind + ":const:wrong-index", "position " + std::to_string(i) + " index " + std::to_string(e.index()));
            if (as_int(e.value()) != val(i))
                viol("enumerate:" + kind + ":const:wrong-value", "position " + std::to_string(i));
            if (addr_of(e.value()) != addrs[i])
                viol("enumerate:" + kind + ":const:value-does-not-alias-the-element", "position " + std::to_string(i));
            stats["aliasing-checks"]++;
            ++i;
        }
        if (i != n)
            viol("enumerate:" + kind + ":const:visits-fewer-than-size", std::to_string(i) + " of " + std::to_string(n));
        stats["elements-visited"] += static_cast<long>(n);
    }
    // rvalue: the temporary must stay alive for the whole loop (ASan watches)
    {
        std::size_t i = 0;
        for (auto e : enumerate(make<C>::of(n)))
        {
            if (i >= n)
            {
                viol("enumerate:" + kind + ":rvalue:visits-more-than-size", std::to_string(n));
                break;
            }
            if (e.index() != i)
                viol("enumerate:" + kind + ":rvalue:wrong-index", "position " + std::to_string(i) + " index " + std::to_string(e.index()));
            if (as_int(e.value()) != val(i))
                viol("enumerate:" + kind + ":rvalue:wrong-value", "position " + std::to_string(i));
            ++i;
        }
        if (i != n)
            viol("enumerate:" + kind + ":rvalue:visits-fewer-than-size", std::to_string(i) + " of " + std::to_string(n));
        stats["elements-visited"] += static_cast<long>(n);
        stats["temporaries-iterated"]++;
    }
    stats["combinations"] += 3;
}

// reverse ----------------------------------------------------------------------------------
template <typename C>
static void rev_checks(const std::string& kind, std::size_t n)
{
    {
        C c = make<C>::of(n);
        std::vector<const int*> addrs;
        for (auto& x : c)
            addrs.push_back(addr_of(x));
        std::size_t i = 0;
        for (auto& x : reverse(c))
        {
            if (i >= n)
            {
                viol("reverse:" + kind + ":lvalue:visits-more-than-size", std::to_string(n));
                break;
            }
            if (as_int(x) != val(n - 1 - i))
                viol("reverse:" + kind + ":lvalue:wrong-order", "position " + std::to_string(i));
            if (addr_of(x) != addrs[n - 1 - i])
                viol("reverse:" + kind + ":lvalue:value-does-not-alias-the-element", "position " + std::to_string(i));
            *addr_of(x) = -val(n - 1 - i) - 1;
            stats["aliasing-checks"]++;
            ++i;
        }
        if (i != n)
            viol("reverse:" + kind + ":lvalue:visits-fewer-than-size", std::to_string(i) + " of " + std::to_string(n));
        i = 0;
        for (auto& x : c)
        {
            if (as_int(x) != -val(i) - 1)
                viol("reverse:" + kind + ":lvalue:write-not-visible-in-container", "position " + std::to_string(i));
            stats["writes-verified"]++;
            ++i;
        }
        stats["elements-visited"] += static_cast<long>(n);
    }
    {
        const C c = make<C>::of(n);
        std::vector<const int*> addrs;
        for (auto& x : c)
            addrs.push_back(addr_of(x));
        std::size_t i = 0;
        for (auto& x : reverse(c))
        {
            if (i >= n)
            {
                viol("reverse:" + kind + ":const:visits-more-than-size", std::to_string(n));
                break;
            }
            if (as_int(x) != val(n - 1 - i))
                viol("reverse:" + kind + ":const:wrong-order", "position " + std::to_string(i));
            if (addr_of(x) != addrs[n - 1 - i])
                viol("reverse:" + kind + ":const:value-does-not-alias-the-element", "position " + std::to_string(i));
            stats["aliasing-checks"]++;
            ++i;
        }
        if (i != n)
            viol("reverse:" + kind + ":const:visits-fewer-than-size", std::to_string(i) + " of " + std::to_string(n));
        stats["elements-visited"] += static_cast<long>(n);
    }
    {
        std::size_t i = 0;
        for (auto x : reverse(make<C>::of(n)))
        {
            if (i >= n)
            {
                viol("reverse:" + kind + ":rvalue:visits-more-than-size", std::to_string(n));
                break;
            }
            if (as_int(x) != val(n - 1 - i))
                viol("reverse:" + kind + ":rvalue:wrong-order", "position " + std::to_string(i));
            ++i;
        }
        if (i != n)
            viol("reverse:" + kind + ":rvalue:visits-fewer-than-size", std::to_string(i) + " of " + std::to_string(n));
        stats["elements-visited"] += static_cast<long>(n);
        stats["temporaries-iterated"]++;
    }
    stats["combinations"] += 3;
}

// built-in arrays and initializer lists need compile-time lengths
template <std::size_t N>
static void builtin_array_checks()
{
    const std::string kind = "builtin-array";
    {
        int a[N];
        for (std::size_t i = 0; i < N; ++i)
            a[i] = val(i);
        std::size_t i = 0;
        for (auto&& e : enumerate(a))
        {
            if (i >= N)
            {
                viol("enumerate:" + kind + ":lvalue:visits-more-than-size", std::to_string(N));
                break;
            }
            if (e.index() != i)
                viol("enumerate:" + kind + ":lvalue:wrong-index", std::to_string(i));
            if (e.value() != val(i))
                viol("enumerate:" + kind + ":lvalue:wrong-value", std::to_string(i));
            if (&e.value() != &a[i])
                viol("enumerate:" + kind + ":lvalue:value-does-not-alias-the-element", std::to_string(i));
            e.value() = -val(i) - 1;
            stats["aliasing-checks"]++;
            ++i;
        }
        if (i != N)
            viol("enumerate:" + kind + ":lvalue:visits-fewer-than-size", std::to_string(i));
        for (i = 0; i < N; ++i)
        {
            if (a[i] != -val(i) - 1)
                viol("enumerate:" + kind + ":lvalue:write-not-visible-in-container", std::to_string(i));
            stats["writes-verified"]++;
        }
    }
    {
        const int a[N] = {};
        std::size_t i = 0;
        for (auto&& e : enumerate(a))
        {
            if (i >= N)
                break;
            if (e.index() != i || &e.value() != &a[i])
                viol("enumerate:" + kind + ":const:wrong-index-or-alias", std::to_string(i));
            stats["aliasing-checks"]++;
            ++i;
        }
        if (i != N)
            viol("enumerate:" + kind + ":const:visits-fewer-than-size", std::to_string(i));
    }
    {
        int a[N];
        for (std::size_t i = 0; i < N; ++i)
            a[i] = val(i);
        std::size_t i = 0;
        for (auto& x : reverse(a))
        {
            if (i >= N)
            {
                viol("reverse:" + kind + ":lvalue:visits-more-than-size", std::to_string(N));
                break;
            }
            int& r = x;
            if (r != val(N - 1 - i))
                viol("reverse:" + kind + ":lvalue:wrong-order", std::to_string(i));
            if (&r != &a[N - 1 - i])
                viol("reverse:" + kind + ":lvalue:value-does-not-alias-the-element", std::to_string(i));
            r = -val(N - 1 - i) - 1;
            stats["aliasing-checks"]++;
            ++i;
        }
        if (i != N)
            viol("reverse:" + kind + ":lvalue:visits-fewer-than-size", std::to_string(i));
        for (i = 0; i < N; ++i)
        {
            if (a[i] != -val(i) - 1)
                viol("reverse:" + kind + ":lvalue:write-not-visible-in-container", std::to_string(i));
            stats["writes-verified"]++;
        }
    }
    stats["combinations"] += 3;
    stats["elements-visited"] += 3 * static_cast<long>(N);
}

// built-in arrays of character type are arrays of N elements like any other (no terminator logic)
template <typename Ch, std::size_t N>
static void char_array_checks(const std::string& kind)
{
    Ch a[N];
    for (std::size_t i = 0; i < N; ++i)
        a[i] = static_cast<Ch>('a' + i);
    {
        std::size_t i = 0;
        for (auto& x : reverse(a))
        {
            if (i >= N)
            {
                viol("reverse:" + kind + ":lvalue:visits-more-than-size", std::to_string(N));
                break;
            }
            const Ch& r = x;
            if (r != static_cast<Ch>('a' + (N - 1 - i)) || &r != &a[N - 1 - i])
                viol("reverse:" + kind + ":lvalue:wrong-order-or-alias", std::to_string(i));
            ++i;
        }
        if (i != N)
            viol("reverse:" + kind + ":lvalue:visits-fewer-than-size", std::to_string(i) + " of " + std::to_string(N));
    }
    {
        const Ch(&ca)[N] = a;
        std::size_t i = 0;
        for (auto& x : reverse(ca))
        {
            if (i >= N)
                break;
            const Ch& r = x;
            if (r != static_cast<Ch>('a' + (N - 1 - i)) || &r != &a[N - 1 - i])
                viol("reverse:" + kind + ":const:wrong-order-or-alias", std::to_string(i));
            ++i;
        }
        if (i != N)
            viol("reverse:" + kind + ":const:visits-fewer-than-size", std::to_string(i) + " of " + std::to_string(N));
        i = 0;
        for (auto&& e : enumerate(ca))
        {
            if (i >= N)
                break;
            if (e.index() != i || &e.value() != &a[i])
                viol("enumerate:" + kind + ":const:wrong-index-or-alias", std::to_string(i));
            ++i;
        }
        if (i != N)
            viol("enumerate:" + kind + ":const:visits-fewer-than-size", std::to_string(i) + " of " + std::to_string(N));
        i = 0;
        for (auto&& e : enumerate(a))
        {
            if (i >= N)
                break;
            if (e.index() != i || &e.value() != &a[i])
                viol("enumerate:" + kind + ":lvalue:wrong-index-or-alias", std::to_string(i));
            ++i;
        }
        if (i != N)
            viol("enumerate:" + kind + ":lvalue:visits-fewer-than-size", std::to_string(i) + " of " + std::to_string(N));
    }
    stats["combinations"] += 4;
    stats["elements-visited"] += 4 * static_cast<long>(N);
}

template <typename L>
static void check_ilist_enum(L&& adaptor, std::size_t n)
{
    std::size_t i = 0;
    for (auto e : adaptor)
    {
        if (i >= n)
        {
            viol("enumerate:initializer-list:visits-more-than-size", std::to_string(n));
            break;
        }
        if (e.index() != i || e.value() != val(i))
            viol("enumerate:initializer-list:wrong-index-or-value", std::to_string(i));
        ++i;
    }
    if (i != n)
        viol("enumerate:initializer-list:visits-fewer-than-size", std::to_string(i));
    stats["elements-visited"] += static_cast<long>(n);
    stats["combinations"]++;
}

template <typename L>
static void check_ilist_rev(L&& adaptor, std::size_t n)
{
    std::size_t i = 0;
    for (auto x : adaptor)
    {
        if (i >= n)
        {
            viol("reverse:initializer-list:visits-more-than-size", std::to_string(n));
            break;
        }
        if (x != val(n - 1 - i))
            viol("reverse:initializer-list:wrong-order", std::to_string(i));
        ++i;
    }
    if (i != n)
        viol("reverse:initializer-list:visits-fewer-than-size", std::to_string(i));
    stats["elements-visited"] += static_cast<long>(n);
    stats["combinations"]++;
}

static void ilist_checks()
{
    check_ilist_enum(enumerate({ val(0) }), 1);
    check_ilist_enum(enumerate({ val(0), val(1) }), 2);
    check_ilist_enum(enumerate({ val(0), val(1), val(2) }), 3);
    check_ilist_enum(enumerate({ val(0), val(1), val(2), val(3), val(4) }), 5);
    check_ilist_rev(reverse({ val(0) }), 1);
    check_ilist_rev(reverse({ val(0), val(1) }), 2);
    check_ilist_rev(reverse({ val(0), val(1), val(2) }), 3);
    check_ilist_rev(reverse({ val(0), val(1), val(2), val(3), val(4) }), 5);
    // directly in the range-for, as a program writes it (temporary lifetime)
    std::size_t i = 0;
    for (auto e : enumerate({ val(0), val(1), val(2), val(3) }))
    {
        if (e.index() != i || e.value() != val(i))
            viol("enumerate:initializer-list:wrong-index-or-value", std::to_string(i));
        ++i;
    }
    if (i != 4)
        viol("enumerate:initializer-list:visits-fewer-than-size", std::to_string(i));
    i = 0;
    for (auto x : reverse({ val(0), val(1), val(2), val(3) }))
    {
        if (x != val(3 - i))
            viol("reverse:initializer-list:wrong-order", std::to_string(i));
        ++i;
    }
    if (i != 4)
        viol("reverse:initializer-list:visits-fewer-than-size", std::to_string(i));
    stats["temporaries-iterated"] += 10;
}

// a range whose iterator returns values by copy and has no default constructor
struct CopyRange
{
    std::size_t n;
    struct iterator
    {
        std::size_t i;
        explicit iterator(std::size_t i) : i(i)
        {
        }
        int operator*() const
        {
            return val(i);
        }
        iterator& operator++()
        {
            ++i;
            return *this;
        }
        bool operator!=(const iterator& o) const
        {
            return i != o.i;
        }
        bool operator==(const iterator& o) const
        {
            return i == o.i;
        }
    };
    iterator begin() const
    {
        return iterator(0);
    }
    iterator end() const
    {
        return iterator(n);
    }
};

static void custom_range_checks(const std::vector<std::size_t>& lengths)
{
    for (std::size_t n : lengths)
    {
        CopyRange c{ n };
        std::size_t i = 0;
        for (auto e : enumerate(c))
        {
            if (i >= n)
            {
                viol("enumerate:copy-deref-range:lvalue:visits-more-than-size", std::to_string(n));
                break;
            }
            if (e.index() != i || e.value() != val(i))
                viol("enumerate:copy-deref-range:lvalue:wrong-index-or-value", std::to_string(i));
            ++i;
        }
        if (i != n)
            viol("enumerate:copy-deref-range:lvalue:visits-fewer-than-size", std::to_string(i));
        const CopyRange cc{ n };
        i = 0;
        for (auto e : enumerate(cc))
        {
            if (i >= n)
                break;
            if (e.index() != i || e.value() != val(i))
                viol("enumerate:copy-deref-range:const:wrong-index-or-value", std::to_string(i));
            ++i;
        }
        if (i != n)
            viol("enumerate:copy-deref-range:const:visits-fewer-than-size", std::to_string(i));
        i = 0;
        for (auto e : enumerate(CopyRange{ n }))
        {
            if (i >= n)
                break;
            if (e.index() != i || e.value() != val(i))
                viol("enumerate:copy-deref-range:rvalue:wrong-index-or-value", std::to_string(i));
            ++i;
        }
        if (i != n)
            viol("enumerate:copy-deref-range:rvalue:visits-fewer-than-size", std::to_string(i));
        stats["combinations"] += 3;
        stats["elements-visited"] += 3 * static_cast<long>(n);
    }
}

// walking the adaptor by hand, with both increment forms of its iterator
template <typename C>
static void manual_walk(const std::string& kind, std::size_t n)
{
    C c = make<C>::of(n);
    {
        auto r = enumerate(c);
        auto it = r.begin();
        auto last = r.end();
        std::size_t i = 0;
        while (it != last && i <= n)
        {
            auto e = *it++; // post-increment yields the position before the step
            if (e.index() != i || as_int(e.value()) != val(i))
                viol("enumerate:" + kind + ":post-increment:wrong-index-or-value",
                     "position " + std::to_string(i) + " index " + std::to_string(e.index()));
            ++i;
        }
        if (i != n)
            viol("enumerate:" + kind + ":post-increment:wrong-number-of-steps", std::to_string(i) + " of " + std::to_string(n));
    }
    {
        auto r = enumerate(c);
        auto it = r.begin();
        auto last = r.end();
        std::size_t i = 0;
        for (; it != last && i <= n; ++it, ++i)
        {
            auto e = *it;
            if (e.index() != i || as_int(e.value()) != val(i))
                viol("enumerate:" + kind + ":pre-increment:wrong-index-or-value", std::to_string(i));
        }
        if (i != n)
            viol("enumerate:" + kind + ":pre-increment:wrong-number-of-steps", std::to_string(i));
    }
    {
        auto r = enumerate(make<C>::of(n));
        auto it = r.begin();
        auto last = r.end();
        std::size_t i = 0;
        while (it != last && i <= n)
        {
            auto e = *it++;
            if (e.index() != i || as_int(e.value()) != val(i))
                viol("enumerate:" + kind + ":rvalue:post-increment:wrong-index-or-value", std::to_string(i));
            ++i;
        }
        if (i != n)
            viol("enumerate:" + kind + ":rvalue:post-increment:wrong-number-of-steps", std::to_string(i));
    }
    stats["combinations"] += 3;
    stats["manual-walks"] += 3;
    stats["elements-visited"] += 3 * static_cast<long>(n);
}

// Two adaptor ranges of the same type alive at the same time (nested loops, ranges stored in
// variables and walked later, interleaved manual iteration): each must keep visiting ITS range.
template <typename MakeA, typename MakeB>
static void overlap_case(const std::string& kind, MakeA&& mk_a, MakeB&& mk_b, const std::vector<int>& want_a,
                         const std::vector<int>& want_b)
{
    stats["overlapping-ranges:" + kind]++;
    // (1) nested loops
    {
        std::vector<int> outer, inner_all;
        for (auto&& x : mk_a())
        {
            outer.push_back(as_int(x));
            std::vector<int> inner;
            for (auto&& y : mk_b())
                inner.push_back(as_int(y));
            if (inner != want_b)
                viol(kind + ":nested-inner-loop-wrong", "outer element " + std::to_string(outer.size()));
        }
        if (outer != want_a)
            viol(kind + ":outer-loop-disturbed-by-inner-loop", std::to_string(outer.size()) + " of " + std::to_string(want_a.size()));
    }
    // (2) both ranges are created first, then walked one after the other and interleaved
    {
        auto ra = mk_a();
        auto rb = mk_b();
        std::vector<int> got_a, got_b;
        for (auto&& x : ra)
            got_a.push_back(as_int(x));
        for (auto&& y : rb)
            got_b.push_back(as_int(y));
        if (got_a != want_a)
            viol(kind + ":first-of-two-stored-ranges-wrong", "");
        if (got_b != want_b)
            viol(kind + ":second-of-two-stored-ranges-wrong", "");
        auto ia = ra.begin();
        auto ib = rb.begin();
        std::vector<int> za, zb;
        while (ia != ra.end() || ib != rb.end())
        {
            if (ia != ra.end())
            {
                za.push_back(as_int(*ia));
                ++ia;
            }
            if (ib != rb.end())
            {
                zb.push_back(as_int(*ib));
                ++ib;
            }
        }
        if (za != want_a || zb != want_b)
            viol(kind + ":interleaved-iteration-wrong", "");
    }
}

template <typename T>
static int as_int(const std::pair<std::size_t, T>& p); // enumerate's value type is handled by the overloads above

static void overlap_checks()
{
    using nitro::lang::enumerate;
    using nitro::lang::reverse;
    static int a[3] = { 1, 2, 3 }, b[3] = { 10, 20, 30 };
    static const int ca[4] = { 4, 5, 6, 7 }, cb[4] = { 40, 50, 60, 70 };
    overlap_case("reverse:builtin-array", [] { return reverse(a); }, [] { return reverse(b); }, { 3, 2, 1 }, { 30, 20, 10 });
    overlap_case("reverse:const-builtin-array", [] { return reverse(ca); }, [] { return reverse(cb); }, { 7, 6, 5, 4 },
                 { 70, 60, 50, 40 });
    overlap_case("reverse:same-builtin-array-twice", [] { return reverse(a); }, [] { return reverse(a); }, { 3, 2, 1 }, { 3, 2, 1 });
    static std::vector<int> va{ 1, 2, 3, 4 }, vb{ 9, 8, 7, 6 };
    static const std::vector<int> cva{ 1, 2, 3 }, cvb{ 5, 6, 7 };
    overlap_case("reverse:std::vector:lvalue", [] { return reverse(va); }, [] { return reverse(vb); }, { 4, 3, 2, 1 }, { 6, 7, 8, 9 });
    overlap_case("reverse:std::vector:const", [] { return reverse(cva); }, [] { return reverse(cvb); }, { 3, 2, 1 }, { 7, 6, 5 });
    overlap_case("reverse:std::vector:rvalue", [] { return reverse(std::vector<int>{ 1, 2, 3 }); },
                 [] { return reverse(std::vector<int>{ 7, 8, 9 }); }, { 3, 2, 1 }, { 9, 8, 7 });
    overlap_case("reverse:initializer-list", [] { return reverse({ 1, 2, 3 }); }, [] { return reverse({ 4, 5, 6 }); }, { 3, 2, 1 },
                 { 6, 5, 4 });
    static std::list<int> la{ 1, 2 }, lb{ 3, 4 };
    overlap_case("reverse:std::list:lvalue", [] { return reverse(la); }, [] { return reverse(lb); }, { 2, 1 }, { 4, 3 });
    // writes through one range must land in its own array
    {
        int x[3] = { 1, 2, 3 }, y[3] = { 100, 200, 300 };
        for (auto&& e : reverse(x))
        {
            for (auto&& f : reverse(y))
                f += 1;
            e *= -1;
        }
        if (!(x[0] == -1 && x[1] == -2 && x[2] == -3 && y[0] == 103 && y[1] == 203 && y[2] == 303))
            viol("reverse:builtin-array:nested-writes-landed-elsewhere",
                 std::to_string(x[0]) + "," + std::to_string(x[1]) + "," + std::to_string(x[2]) + " / " + std::to_string(y[0]) + "," +
                     std::to_string(y[1]) + "," + std::to_string(y[2]));
        stats["overlapping-ranges:nested-writes"]++;
    }
    // enumerate: the pairs' values (index checked separately through a checksum)
    auto en = [](auto&& range) {
        std::vector<int> r;
        for (auto&& p : range)
            r.push_back(static_cast<int>(p.index()) * 1000 + as_int(p.value()));
        return r;
    };
    {
        std::vector<int> outer;
        for (auto&& p : enumerate(a))
        {
            outer.push_back(static_cast<int>(p.index()) * 1000 + p.value());
            if (en(enumerate(b)) != std::vector<int>{ 10, 1020, 2030 })
                viol("enumerate:builtin-array:nested-inner-loop-wrong", "");
            if (en(enumerate(vb)) != std::vector<int>{ 9, 1008, 2007, 3006 })
                viol("enumerate:std::vector:nested-inner-loop-wrong", "");
            if (en(enumerate({ 5, 6 })) != std::vector<int>{ 5, 1006 })
                viol("enumerate:initializer-list:nested-inner-loop-wrong", "");
        }
        if (outer != std::vector<int>{ 1, 1002, 2003 })
            viol("enumerate:builtin-array:outer-loop-disturbed-by-inner-loop", "");
        auto ea = enumerate(va);
        auto eb = enumerate(std::vector<int>{ 7, 7 });
        auto ec = enumerate({ 8, 9 });
        if (en(ea) != std::vector<int>{ 1, 1002, 2003, 3004 } || en(eb) != std::vector<int>{ 7, 1007 } ||
            en(ec) != std::vector<int>{ 8, 1009 } || en(ea) != std::vector<int>{ 1, 1002, 2003, 3004 })
            viol("enumerate:stored-ranges-wrong", "");
        stats["overlapping-ranges:enumerate"]++;
    }
}

// other element and range TYPES (the int machinery above cannot express them): characters, strings, move-only
// elements, proxy references, node containers with const elements, forward-only ranges, user-defined ranges, views
struct OwnRange
{
    int data[4] = { 5, 6, 7, 8 };
    int* begin()
    {
        return data;
    }
    int* end()
    {
        return data + 4;
    }
    const int* begin() const
    {
        return data;
    }
    const int* end() const
    {
        return data + 4;
    }
};

template <typename R, typename V>
static void expect_enum(const std::string& kind, R&& range, const std::vector<V>& want)
{
    std::size_t i = 0;
    for (auto&& e : range)
    {
        if (i >= want.size())
        {
            viol("enumerate:" + kind + ":visits-more-than-size", "");
            return;
        }
        if (e.index() != i)
            viol("enumerate:" + kind + ":wrong-index", "position " + std::to_string(i));
        if (!(static_cast<V>(e.value()) == want[i]))
            viol("enumerate:" + kind + ":wrong-value", "position " + std::to_string(i));
        ++i;
    }
    if (i != want.size())
        viol("enumerate:" + kind + ":visits-fewer-than-size", std::to_string(i));
    stats["other-type-ranges"]++;
}

template <typename R, typename V>
static void expect_rev(const std::string& kind, R&& range, std::vector<V> want)
{
    std::reverse(want.begin(), want.end());
    std::size_t i = 0;
    for (auto&& x : range)
    {
        if (i >= want.size())
        {
            viol("reverse:" + kind + ":visits-more-than-size", "");
            return;
        }
        if (!(static_cast<V>(x) == want[i]))
            viol("reverse:" + kind + ":wrong-order", "position " + std::to_string(i));
        ++i;
    }
    if (i != want.size())
        viol("reverse:" + kind + ":visits-fewer-than-size", std::to_string(i));
    stats["other-type-ranges"]++;
}

static const std::vector<int> make_const_vector()
{
    return std::vector<int>{ 10, 11, 12, 13, 14 };
}
static const std::list<std::string> make_const_list()
{
    return std::list<std::string>{ "a somewhat longer first element", "second", "" };
}

static void other_type_checks()
{
    using nitro::lang::enumerate;
    using nitro::lang::reverse;
    {
        std::string s = "abcd";
        const std::string cs = "xyz";
        expect_enum<decltype(enumerate(s)), char>("std::string:lvalue", enumerate(s), { 'a', 'b', 'c', 'd' });
        expect_enum<decltype(enumerate(cs)), char>("std::string:const", enumerate(cs), { 'x', 'y', 'z' });
        expect_enum<decltype(enumerate(std::string("tmp"))), char>("std::string:rvalue", enumerate(std::string("tmp")), { 't', 'm', 'p' });
        expect_rev<decltype(reverse(s)), char>("std::string:lvalue", reverse(s), { 'a', 'b', 'c', 'd' });
        expect_rev<decltype(reverse(cs)), char>("std::string:const", reverse(cs), { 'x', 'y', 'z' });
        expect_rev<decltype(reverse(std::string("tmp"))), char>("std::string:rvalue", reverse(std::string("tmp")), { 't', 'm', 'p' });
        for (auto&& e : enumerate(s))
            if (&e.value() != &s[e.index()])
                viol("enumerate:std::string:lvalue:value-does-not-alias-the-element", "");
        for (auto& ch : reverse(s))
            ch = static_cast<char>(ch - 32);
        if (s != "ABCD")
            viol("reverse:std::string:lvalue:write-not-visible-in-container", s);
        std::string_view sv = "view";
        expect_enum<decltype(enumerate(sv)), char>("std::string_view", enumerate(sv), { 'v', 'i', 'e', 'w' });
        expect_rev<decltype(reverse(sv)), char>("std::string_view", reverse(sv), { 'v', 'i', 'e', 'w' });
    }
    {
        std::vector<std::string> vs{ "one", "", "three is a longer string than the small buffer" };
        const auto cvs = vs;
        expect_enum<decltype(enumerate(vs)), std::string>("std::vector<string>:lvalue", enumerate(vs), vs);
        expect_enum<decltype(enumerate(cvs)), std::string>("std::vector<string>:const", enumerate(cvs), vs);
        expect_enum<decltype(enumerate(std::vector<std::string>(vs))), std::string>("std::vector<string>:rvalue",
                                                                                    enumerate(std::vector<std::string>(vs)), vs);
        expect_rev<decltype(reverse(vs)), std::string>("std::vector<string>:lvalue", reverse(vs), vs);
        expect_rev<decltype(reverse(cvs)), std::string>("std::vector<string>:const", reverse(cvs), vs);
        expect_rev<decltype(reverse(std::vector<std::string>(vs))), std::string>("std::vector<string>:rvalue",
                                                                                 reverse(std::vector<std::string>(vs)), vs);
        for (auto&& e : enumerate(cvs))
            if (&e.value() != &cvs[e.index()])
                viol("enumerate:std::vector<string>:const:value-does-not-alias-the-element", "");
        std::size_t k = cvs.size();
        for (auto& x : reverse(cvs))
            if (&x != &cvs[--k])
                viol("reverse:std::vector<string>:const:value-does-not-alias-the-element", "");
    }
    {
        std::vector<std::unique_ptr<int>> vp;
        for (int i = 0; i < 4; ++i)
            vp.push_back(std::make_unique<int>(i * 11));
        std::size_t i = 0;
        for (auto&& e : enumerate(vp))
        {
            if (e.index() != i || *e.value() != static_cast<int>(i) * 11 || &e.value() != &vp[i])
                viol("enumerate:std::vector<unique_ptr>:lvalue:wrong-element", std::to_string(i));
            ++i;
        }
        i = vp.size();
        for (auto& p : reverse(vp))
            if (&p != &vp[--i])
                viol("reverse:std::vector<unique_ptr>:lvalue:wrong-element", std::to_string(i));
        stats["other-type-ranges"] += 2;
    }
    {
        std::set<int> st{ 3, 1, 2 };
        expect_enum<decltype(enumerate(st)), int>("std::set", enumerate(st), { 1, 2, 3 });
        expect_rev<decltype(reverse(st)), int>("std::set", reverse(st), { 1, 2, 3 });
        std::forward_list<int> fl{ 4, 5, 6 };
        expect_enum<decltype(enumerate(fl)), int>("std::forward_list", enumerate(fl), { 4, 5, 6 });
        OwnRange own;
        const OwnRange cown;
        expect_enum<decltype(enumerate(own)), int>("user-defined-range:lvalue", enumerate(own), { 5, 6, 7, 8 });
        expect_enum<decltype(enumerate(cown)), int>("user-defined-range:const", enumerate(cown), { 5, 6, 7, 8 });
        for (auto&& e : enumerate(own))
            e.value() += 1;
        if (own.data[0] != 6 || own.data[3] != 9)
            viol("enumerate:user-defined-range:lvalue:write-not-visible-in-container", "");
    }
    {
        std::vector<long long> big{ 4294967296LL, -1, 9223372036854775807LL };
        std::vector<double> dbl{ 0.5, -0.0, 1e300 };
        expect_enum<decltype(enumerate(big)), long long>("std::vector<long long>", enumerate(big), big);
        expect_rev<decltype(reverse(big)), long long>("std::vector<long long>", reverse(big), big);
        expect_enum<decltype(enumerate(dbl)), double>("std::vector<double>", enumerate(dbl), dbl);
        expect_rev<decltype(reverse(dbl)), double>("std::vector<double>", reverse(dbl), dbl);
    }
    {
        // CONST temporaries (a function returning `const C`, std::move of a const container): the range must own
        // them for the whole loop like any other temporary (ASan watches)
        expect_enum<decltype(enumerate(make_const_vector())), int>("std::vector:const-rvalue", enumerate(make_const_vector()),
                                                                   { 10, 11, 12, 13, 14 });
        expect_rev<decltype(reverse(make_const_vector())), int>("std::vector:const-rvalue", reverse(make_const_vector()),
                                                                { 10, 11, 12, 13, 14 });
        expect_enum<decltype(enumerate(make_const_list())), std::string>("std::list<string>:const-rvalue", enumerate(make_const_list()),
                                                                         { "a somewhat longer first element", "second", "" });
        expect_rev<decltype(reverse(make_const_list())), std::string>("std::list<string>:const-rvalue", reverse(make_const_list()),
                                                                      { "a somewhat longer first element", "second", "" });
        auto stored = [] {
            const std::vector<int> local{ 7, 8, 9 };
            return enumerate(std::move(local)); // the range outlives `local`
        }();
        expect_enum<decltype(stored)&, int>("std::vector:moved-const-lvalue", stored, { 7, 8, 9 });
        auto rstored = [] {
            const std::vector<int> local{ 7, 8, 9 };
            return reverse(std::move(local));
        }();
        expect_rev<decltype(rstored)&, int>("std::vector:moved-const-lvalue", rstored, { 7, 8, 9 });
    }
#ifndef ITER_NO_VECTOR_BOOL
    {
        std::vector<bool> vb{ true, false, false, true, true };
        const auto cvb = vb;
        expect_rev<decltype(reverse(vb)), bool>("std::vector<bool>:lvalue", reverse(vb), { true, false, false, true, true });
        expect_rev<decltype(reverse(cvb)), bool>("std::vector<bool>:const", reverse(cvb), { true, false, false, true, true });
        expect_enum<decltype(enumerate(cvb)), bool>("std::vector<bool>:const", enumerate(cvb), { true, false, false, true, true });
    }
#endif
}

template <typename F>
static void kind_case(const std::string& name, F&& f)
{
    begin_case({ "CASE", name }, 60);
    f();
    for (auto& v : found)
        out("V " + v);
    found.clear();
    end_case();
}

template <std::size_t... N>
static void std_array_all(std::index_sequence<N...>)
{
    (void)std::initializer_list<int>{ (enum_checks<std::array<int, N>>("std::array", N), rev_checks<std::array<int, N>>("std::array", N), 0)... };
}

template <std::size_t... N>
static void builtin_all(std::index_sequence<N...>)
{
    (void)std::initializer_list<int>{ (builtin_array_checks<N + 1>(), 0)... };
}

int main(int argc, char** argv)
{
    init();
    std::size_t maxlen = argc > 1 ? std::strtoull(argv[1], nullptr, 10) : 5;
    // lengths: 0..maxlen plus every further length given on the command line
    std::vector<std::size_t> lengths;
    for (std::size_t n = 0; n <= maxlen; ++n)
        lengths.push_back(n);
    for (int i = 2; i < argc; ++i)
        lengths.push_back(std::strtoull(argv[i], nullptr, 10));
    kind_case("std::vector", [&] {
        for (std::size_t n : lengths)
        {
            enum_checks<std::vector<int>>("std::vector", n);
            rev_checks<std::vector<int>>("std::vector", n);
        }
    });
    kind_case("std::list", [&] {
        for (std::size_t n : lengths)
        {
            enum_checks<std::list<int>>("std::list", n);
            rev_checks<std::list<int>>("std::list", n);
        }
    });
    kind_case("std::deque", [&] {
        for (std::size_t n : lengths)
        {
            enum_checks<std::deque<int>>("std::deque", n);
            rev_checks<std::deque<int>>("std::deque", n);
        }
    });
    kind_case("std::map", [&] {
        for (std::size_t n : lengths)
        {
            enum_checks<std::map<int, int>>("std::map", n);
            rev_checks<std::map<int, int>>("std::map", n);
        }
    });
    kind_case("fixed_vector:enumerate", [&] {
        for (std::size_t n : lengths)
            enum_checks<nitro::lang::fixed_vector<int>>("fixed_vector", n);
    });
    kind_case("fixed_vector:reverse", [&] {
        for (std::size_t n : lengths)
            rev_checks<nitro::lang::fixed_vector<int>>("fixed_vector", n);
    });
    kind_case("std::array", [&] { std_array_all(std::make_index_sequence<6>{}); });
    kind_case("builtin-array", [&] { builtin_all(std::make_index_sequence<5>{}); });
    kind_case("builtin-array-of-characters", [&] {
        char_array_checks<char, 1>("builtin-array<char>");
        char_array_checks<char, 3>("builtin-array<char>");
        char_array_checks<char, 7>("builtin-array<char>");
        char_array_checks<unsigned char, 2>("builtin-array<unsigned char>");
        char_array_checks<signed char, 4>("builtin-array<signed char>");
        char_array_checks<wchar_t, 3>("builtin-array<wchar_t>");
        char_array_checks<long long, 3>("builtin-array<long long>");
        char_array_checks<double, 2>("builtin-array<double>");
    });
    kind_case("initializer-list", [&] { ilist_checks(); });
    kind_case("overlapping-ranges", [&] { overlap_checks(); });
    kind_case("other-element-and-range-types", [&] { other_type_checks(); });
    kind_case("copy-deref-range", [&] { custom_range_checks(lengths); });
    kind_case("manual-iteration", [&] {
        for (std::size_t n : lengths)
        {
            manual_walk<std::vector<int>>("std::vector", n);
            manual_walk<std::list<int>>("std::list", n);
            manual_walk<std::map<int, int>>("std::map", n);
            manual_walk<nitro::lang::fixed_vector<int>>("fixed_vector", n);
        }
    });
    std::string st = "STATS";
    for (auto& kv : stats)
        st += " " + kv.first + "=" + std::to_string(kv.second);
    out(st);
    std::fflush(stdout);
    return 0;
}
