// Driver executing declaration / environment / parse / usage / move scripts against
// nitro::options.  One line of output per command; see lib/optscript.py for the grammar.
#include "drv.hpp"

#include <nitro/options/parser.hpp>

#include <cxxabi.h>
#include <fcntl.h>
#include <fstream>
#include <limits>
#include <map>
#include <memory>
#include <optional>
#include <set>
#include <streambuf>
#include <thread>

using namespace drv;
namespace no = nitro::options;

static std::string demangled(const char* n)
{
    int st = 0;
    char* d = abi::__cxa_demangle(n, nullptr, nullptr, &st);
    std::string r = (st == 0 && d) ? d : n;
    std::free(d);
    for (auto& c : r)
        if (c == ' ' || c == ':' || c == ',' || c == ';')
            c = '_';
    return r;
}

// runs f, returns "" on success, else the classification of the escaping exception
template <typename F>
static std::string guarded(F&& f)
{
    try
    {
        f();
        return "";
    }
    catch (no::parsing_error&)
    {
        return "parsing_error";
    }
    catch (no::parser_error&)
    {
        return "parser_error";
    }
    catch (nitro::except::exception&)
    {
        return "nitro_exception";
    }
    catch (std::exception& e)
    {
        return "std." + demangled(typeid(e).name());
    }
    catch (...)
    {
        return "unknown";
    }
}

// a non-seekable capturing buffer, as a terminal or a pipe: tellp() == -1
class capture_buf : public std::streambuf
{
public:
    std::string data;

protected:
    int_type overflow(int_type c) override
    {
        if (c != traits_type::eof())
            data.push_back(static_cast<char>(c));
        return c;
    }
    std::streamsize xsputn(const char* s, std::streamsize n) override
    {
        data.append(s, static_cast<std::size_t>(n));
        return n;
    }
};

struct obj
{
    char kind = 0; // o m t
    no::option* o = nullptr;
    no::multi_option* m = nullptr;
    no::toggle* t = nullptr;
    const void* addr() const
    {
        return kind == 'o' ? static_cast<const void*>(o) :
               kind == 'm' ? static_cast<const void*>(m) :
                             static_cast<const void*>(t);
    }
};

struct state
{
    std::unique_ptr<no::parser> p;
    std::map<int, no::group*> groups;
    std::map<int, obj> objs;
    // declared names in first-declaration order, by kind
    std::vector<std::pair<char, std::string>> names;
    std::set<std::string> envs;
    std::optional<no::arguments> last;
    int last_ok = -1000;

    void reset()
    {
        last_ok = -1000;
        last.reset();
        objs.clear();
        groups.clear();
        names.clear();
        p.reset();
        for (auto& e : envs)
            unsetenv(e.c_str());
        envs.clear();
    }

    void remember(char kind, const std::string& name)
    {
        for (auto& n : names)
            if (n.first == kind && n.second == name)
                return;
        names.emplace_back(kind, name);
    }
};

// Text arguments of the declaration calls are handed over as std::string, as const char* or as an lvalue
// character buffer that is LARGER than the text (a `char buf[64]` filled by snprintf), in rotation: the
// declared text is the C string in all three cases.
template <typename F>
static auto with_text(const std::string& v, F&& f) -> decltype(f(v))
{
    static unsigned long calls = 0;
    unsigned long k = calls++ % 3;
    bool plain = v.find('\0') == std::string::npos;
    if (k == 1 && plain)
    {
        const char* p = v.c_str();
        return f(p);
    }
    if (k == 2 && plain && v.size() < 63)
    {
        char buf[64];
        std::memset(buf, 'Z', sizeof buf); // stale bytes behind the terminator
        std::memcpy(buf, v.c_str(), v.size() + 1);
        return f(buf);
    }
    return f(v);
}

static std::string join_hex(const std::vector<std::string>& v)
{
    std::string r;
    for (std::size_t i = 0; i < v.size(); ++i)
    {
        if (i)
            r += ",";
        r += hex(v[i]);
    }
    return r.empty() ? "-" : r;
}

static std::string report_arguments(state& st, const no::arguments& a)
{
    std::ostringstream s;
    for (auto& n : st.names)
    {
        s << " ; " << n.first << ":" << hex(n.second) << ":";
        std::string body;
        std::string e = guarded([&] {
            std::ostringstream b;
            if (n.first == 'o')
            {
                std::string inner;
                std::string ie = guarded([&] { inner = "V" + hex(a.get(n.second)); });
                b << (ie.empty() ? inner : (ie == "nitro_exception" ? std::string("N") : "!" + ie));
            }
            else if (n.first == 'm')
            {
                auto& all = a.get_all(n.second);
                b << a.count(n.second) << ":" << join_hex(all);
                // element access must agree with get_all
                for (std::size_t i = 0; i < all.size(); ++i)
                    if (a.get(n.second, i) != all[i])
                        b << ":MISMATCH";
            }
            else
            {
                b << a.given(n.second);
            }
            b << ":" << (a.provided(n.second) ? 1 : 0);
            body = b.str();
        });
        s << (e.empty() ? body : "!" + e);
    }
    auto& pos = a.positionals();
    s << " ; pos:" << join_hex(pos);
    s << " ; idx:";
    int n = static_cast<int>(pos.size());
    for (int i = -n - 1; i <= n; ++i)
    {
        std::string v;
        std::string e = guarded([&] { v = hex(a.get(i)); });
        std::string v2;
        std::string e2 = guarded([&] { v2 = hex(a[i]); });
        if (e != e2 || v != v2)
            v = "MISMATCH";
        if (n <= 8)
        {
            // the same index on a TEMPORARY arguments object (`parser.parse(...).get(i)`)
            std::string v3, v4;
            std::string e3 = guarded([&] { v3 = hex(no::arguments(a).get(i)); });
            std::string e4 = guarded([&] {
                no::arguments tmp(a);
                v4 = hex(std::move(tmp)[i]);
            });
            if (e3 != e || v3 != v2 || e4 != e || v4 != v2)
                v = "MISMATCH-ON-TEMPORARY";
        }
        if (i != -n - 1)
            s << ",";
        s << i << "=" << (e.empty() ? v : "!" + e);
    }
    return s.str();
}

int main()
{
    init();
    state st;
    std::string line;
    while (std::getline(std::cin, line))
    {
        auto w = split_ws(line);
        if (w.empty())
            continue;
        const std::string& c = w[0];
        if (c == "CASE")
        {
            st.reset();
            begin_case(w, 10.0);
        }
        else if (c == "END")
        {
            st.reset();
            end_case();
        }
        else if (c == "NEW")
        {
            st.last.reset();
            st.last_ok = -1000;
            st.objs.clear();
            st.groups.clear();
            st.names.clear();
            st.p.reset();
            std::string e = guarded([&] {
                if (w.size() >= 4)
                    st.p = std::make_unique<no::parser>(unhex(w[1]), unhex(w[2]), unhex(w[3]));
                else if (w.size() == 3)
                    st.p = std::make_unique<no::parser>(unhex(w[1]), unhex(w[2]));
                else if (w.size() == 2)
                    st.p = std::make_unique<no::parser>(unhex(w[1]));
                else
                    st.p = std::make_unique<no::parser>();
            });
            out("N " + (e.empty() ? std::string("ok") : "!" + e));
        }
        else if (c == "GRP")
        {
            // GRP <gvar> <name> [<desc>]
            int g = std::atoi(w[1].c_str());
            no::group* gp = nullptr;
            std::string e = guarded([&] {
                gp = w.size() > 3 ? &st.p->group(unhex(w[2]), unhex(w[3])) :
                                    &st.p->group(unhex(w[2]));
            });
            if (e.empty())
            {
                st.groups[g] = gp;
                std::ostringstream s;
                s << "G ok " << static_cast<const void*>(gp);
                out(s.str());
            }
            else
                out("G !" + e);
        }
        else if (c == "GRPD")
        {
            // GRPD <gvar>: keep a handle to the default group
            int g = std::atoi(w[1].c_str());
            no::group* gp = nullptr;
            std::string e = guarded([&] { gp = &st.p->group(); });
            if (e.empty())
            {
                st.groups[g] = gp;
                out("G ok default");
            }
            else
                out("G !" + e);
        }
        else if (c == "OPT" || c == "MUL" || c == "TOG")
        {
            // OPT <gvar|-1|-2> <ovar> <name> [<desc>]   (-1: parser.option(), -2: parser.group().option())
            int g = std::atoi(w[1].c_str());
            int ov = std::atoi(w[2].c_str());
            std::string name = unhex(w[3]);
            std::string desc = w.size() > 4 ? unhex(w[4]) : std::string();
            bool has_desc = w.size() > 4;
            obj o;
            std::string e = guarded([&] {
              // the name as std::string / const char* / oversized character buffer, in rotation
              with_text(unhex(w[3]), [&](auto&& name) -> int {
                if (c == "OPT")
                {
                    o.kind = 'o';
                    if (g == -1)
                        o.o = has_desc ? &st.p->option(name, desc) : &st.p->option(name);
                    else if (g == -2)
                        o.o = &st.p->group().option(name, desc);
                    else
                        o.o = &st.groups.at(g)->option(name, desc);
                }
                else if (c == "MUL")
                {
                    o.kind = 'm';
                    if (g == -1)
                        o.m = has_desc ? &st.p->multi_option(name, desc) :
                                         &st.p->multi_option(name);
                    else if (g == -2)
                        o.m = &st.p->group().multi_option(name, desc);
                    else
                        o.m = &st.groups.at(g)->multi_option(name, desc);
                }
                else
                {
                    o.kind = 't';
                    if (g == -1)
                        o.t = has_desc ? &st.p->toggle(name, desc) : &st.p->toggle(name);
                    else if (g == -2)
                        o.t = &st.p->group().toggle(name, desc);
                    else
                        o.t = &st.groups.at(g)->toggle(name, desc);
                }
                return 0;
              });
            });
            if (e.empty())
            {
                st.objs[ov] = o;
                st.remember(o.kind, name);
                std::ostringstream s;
                s << "D ok " << o.addr();
                out(s.str());
            }
            else
                out("D !" + e);
        }
        else if (c == "SN" || c == "EV" || c == "MV" || c == "DV" || c == "DB" || c == "OP" ||
                 c == "RV")
        {
            int ov = std::atoi(w[1].c_str());
            if (ov == -1)
                ov = st.last_ok;
            auto it = st.objs.find(ov);
            if (it == st.objs.end())
            {
                out("S skip");
                continue;
            }
            obj& o = it->second;
            const void* ret = nullptr;
            std::string e = guarded([&] {
                if (c == "SN")
                {
                    auto v = unhex(w[2]);
                    ret = with_text(v, [&](auto&& x) -> const void* {
                        return o.kind == 'o' ? (const void*)&o.o->short_name(x) :
                               o.kind == 'm' ? (const void*)&o.m->short_name(x) :
                                               (const void*)&o.t->short_name(x);
                    });
                }
                else if (c == "EV")
                {
                    auto v = unhex(w[2]);
                    ret = with_text(v, [&](auto&& x) -> const void* {
                        return o.kind == 'o' ? (const void*)&o.o->env(x) :
                               o.kind == 'm' ? (const void*)&o.m->env(x) :
                                               (const void*)&o.t->env(x);
                    });
                }
                else if (c == "MV")
                {
                    auto v = unhex(w[2]);
                    ret = with_text(v, [&](auto&& x) -> const void* {
                        return o.kind == 'o' ? (const void*)&o.o->metavar(x) :
                               o.kind == 'm' ? (const void*)&o.m->metavar(x) :
                                               (const void*)&o.t->metavar(x);
                    });
                }
                else if (c == "DV")
                {
                    if (o.kind == 'o')
                        ret = with_text(unhex(w.at(2)), [&](auto&& x) -> const void* { return &o.o->default_value(x); });
                    else if (o.kind == 'm')
                    {
                        std::vector<std::string> d;
                        for (std::size_t i = 2; i < w.size(); ++i)
                            d.push_back(unhex(w[i]));
                        ret = &o.m->default_value(d);
                    }
                    else
                    {
                        // the count as int prvalue, int lvalue, const int&, short (promoted), in rotation
                        static unsigned long dcalls = 0;
                        int n = std::atoi(w.at(2).c_str());
                        const int& cn = n;
                        short sn = static_cast<short>(n);
                        switch (dcalls++ % 4)
                        {
                        case 0:
                            ret = &o.t->default_value(std::atoi(w.at(2).c_str()));
                            break;
                        case 1:
                            ret = &o.t->default_value(n);
                            break;
                        case 2:
                            ret = &o.t->default_value(cn);
                            break;
                        default:
                            ret = sn == n ? &o.t->default_value(sn) : &o.t->default_value(n);
                        }
                    }
                }
                else if (c == "DB")
                {
                    if (o.kind == 't')
                        ret = &o.t->default_value(w.at(2) == "1");
                }
                else if (c == "OP")
                {
                    if (o.kind == 'o')
                        ret = &o.o->optional();
                    else if (o.kind == 'm')
                        ret = &o.m->optional();
                }
                else if (c == "RV")
                {
                    if (o.kind == 't')
                        ret = &o.t->allow_reverse();
                }
            });
            if (e.empty())
                out(std::string("S ok ") + (ret == o.addr() ? "self" : "other"));
            else
                out("S !" + e);
        }
        else if (c == "LASTOK")
        {
            int ov = std::atoi(w[1].c_str());
            if (st.objs.count(ov))
                st.last_ok = ov;
            out("LK ok");
        }
        else if (c == "OPTALL")
        {
            std::string e = guarded([&] {
                for (auto& o : st.objs)
                {
                    if (o.second.kind == 'o')
                        o.second.o->optional();
                    else if (o.second.kind == 'm')
                        o.second.m->optional();
                }
            });
            out("OA " + (e.empty() ? std::string("ok") : "!" + e));
        }
        else if (c == "ACC")
        {
            std::string e = guarded([&] {
                if (w.size() < 2 || w[1] == "inf")
                    st.p->accept_positionals();
                else
                    st.p->accept_positionals(std::strtoull(w[1].c_str(), nullptr, 10));
            });
            out("A " + (e.empty() ? std::string("ok") : "!" + e));
        }
        else if (c == "GRD")
        {
            std::string e = guarded([&] {
                if (w.size() < 2)
                    st.p->greedy_postionals();
                else
                    st.p->greedy_postionals(w[1] == "1");
            });
            out("Y " + (e.empty() ? std::string("ok") : "!" + e));
        }
        else if (c == "PMV")
        {
            std::string e = guarded([&] { st.p->positional_metavar(unhex(w[1])); });
            out("V " + (e.empty() ? std::string("ok") : "!" + e));
        }
        else if (c == "MOVE")
        {
            // move-construct into a fresh heap object and destroy the old one, so that a
            // stale back-reference is a heap-use-after-free for ASan
            st.last.reset();
            std::string e = guarded([&] {
                auto q = std::make_unique<no::parser>(std::move(*st.p));
                st.p = std::move(q);
            });
            out("MV " + (e.empty() ? std::string("ok") : "!" + e));
        }
        else if (c == "MOVEA")
        {
            // move-ASSIGN into another (already used) parser object, destroy the old one
            st.last.reset();
            std::string e = guarded([&] {
                // the target has settings of its own that differ from any source: everything must be replaced
                static unsigned long movea_calls = 0;
                auto q = std::make_unique<no::parser>("other", "about");
                q->toggle("leftover");
                if (movea_calls++ % 2 == 0)
                {
                    q->accept_positionals(5);
                    q->greedy_postionals(true);
                    q->positional_metavar("LEFTOVER");
                    q->group("zz-leftover-group", "left over").toggle("leftover2").short_name("L");
                    q->group("aa-leftover-group").option("leftover3");
                }
                *q = std::move(*st.p);
                st.p = std::move(q);
            });
            out("MV " + (e.empty() ? std::string("ok") : "!" + e));
        }
        else if (c == "SETENV")
        {
            auto n = unhex(w[1]);
            auto v = unhex(w[2]);
            setenv(n.c_str(), v.c_str(), 1);
            st.envs.insert(n);
            out("E ok");
        }
        else if (c == "UNSETENV")
        {
            auto n = unhex(w[1]);
            unsetenv(n.c_str());
            out("E ok");
        }
        else if (c == "PARSE")
        {
            // PARSE <A|V> <tok>...
            st.last.reset();
            std::vector<std::string> toks;
            for (std::size_t i = 2; i < w.size(); ++i)
                toks.push_back(unhex(w[i]));
            std::string e;
            if (w[1] == "A")
            {
                std::vector<const char*> argv;
                argv.push_back("prog");
                // half of the calls with short tokens (in runs of four) hand over a REUSED LINE BUFFER, as a shell or a REPL
                // does: the argv[i] of consecutive calls have the same addresses and different contents
                static char arena[64][64];
                static unsigned long parse_calls = 0;
                bool small = toks.size() < 64;
                for (auto& t : toks)
                    small = small && t.size() < 63;
                if (small && ((parse_calls++ / 4) % 2 == 1)) // four calls from the heap, four from the buffer, ...
                {
                    for (std::size_t i = 0; i < toks.size(); ++i)
                    {
                        std::memcpy(arena[i], toks[i].data(), toks[i].size());
                        arena[i][toks[i].size()] = 0;
                        argv.push_back(arena[i]);
                    }
                }
                else
                {
                    for (auto& t : toks)
                        argv.push_back(t.c_str());
                }
                argv.push_back(nullptr);
                e = guarded([&] {
                    st.last.emplace(st.p->parse(static_cast<int>(argv.size()) - 1, argv.data()));
                });
            }
            else if (w[1] == "W")
            {
                // like V, but every token that does not start with a dash is built with user_input::verbatim()
                // (the documented way to hand over a value as it is); dash tokens are built normally
                e = guarded([&] {
                    std::vector<no::user_input> in;
                    for (auto& t : toks)
                    {
#ifndef OPT_NO_VERBATIM
                        if (!t.empty() && t[0] == '-')
                            in.emplace_back(t);
                        else
                            in.push_back(no::user_input::verbatim(t));
#else
                        in.emplace_back(t); // this tree has no user_input::verbatim(): same meaning for non-dash tokens
#endif
                    }
                    st.last.emplace(st.p->parse(in));
                });
            }
            else
            {
                e = guarded([&] {
                    std::vector<no::user_input> in;
                    for (auto& t : toks)
                        in.emplace_back(t);
                    st.last.emplace(st.p->parse(in));
                });
            }
            if (e.empty())
                out("P ok" + report_arguments(st, *st.last));
            else
                out("P !" + e);
        }
        else if (c == "AS")
        {
            // AS <o|m> <name> <idx> <int|long|unsigned|ulong|double|string|float|short>
            if (!st.last)
            {
                out("T skip");
                continue;
            }
            auto name = unhex(w[2]);
            std::size_t i = std::strtoull(w[3].c_str(), nullptr, 10);
            const std::string& ty = w[4];
            std::ostringstream s;
            s.precision(17);
            bool m = w[1] == "m";
            auto& a = *st.last;
            std::string e = guarded([&] {
                if (ty == "int")
                    s << (m ? a.as<int>(name, i) : a.as<int>(name));
                else if (ty == "long")
                    s << (m ? a.as<long>(name, i) : a.as<long>(name));
                else if (ty == "llong")
                    s << (m ? a.as<long long>(name, i) : a.as<long long>(name));
                else if (ty == "unsigned")
                    s << (m ? a.as<unsigned>(name, i) : a.as<unsigned>(name));
                else if (ty == "ulong")
                    s << (m ? a.as<unsigned long>(name, i) : a.as<unsigned long>(name));
                else if (ty == "short")
                    s << (m ? a.as<short>(name, i) : a.as<short>(name));
                else if (ty == "ushort")
                    s << (m ? a.as<unsigned short>(name, i) : a.as<unsigned short>(name));
                else if (ty == "ullong")
                    s << (m ? a.as<unsigned long long>(name, i) : a.as<unsigned long long>(name));
                else if (ty == "size_t")
                    s << (m ? a.as<std::size_t>(name, i) : a.as<std::size_t>(name));
                else if (ty == "int64")
                    s << (m ? a.as<std::int64_t>(name, i) : a.as<std::int64_t>(name));
                else if (ty == "ldouble")
                {
                    s.precision(21);
                    s << (m ? a.as<long double>(name, i) : a.as<long double>(name));
                }
                else if (ty == "double")
                    s << (m ? a.as<double>(name, i) : a.as<double>(name));
                else if (ty == "float")
                {
                    s.precision(9);
                    s << (m ? a.as<float>(name, i) : a.as<float>(name));
                }
                else if (ty == "string")
                    s << hex(m ? a.as<std::string>(name, i) : a.as<std::string>(name));
            });
            out(e.empty() ? "T ok " + s.str() : "T !" + e);
        }
        else if (c == "USAGE")
        {
            // USAGE F | S <prefix> | C | D | P
            std::string text;
            std::string e;
            if (w[1] == "F")
            {
                std::stringstream s;
                e = guarded([&] { st.p->usage(s); });
                text = s.str();
            }
            else if (w[1] == "S")
            {
                std::string prefix = unhex(w[2]);
                std::stringstream s;
                s << prefix;
                e = guarded([&] { st.p->usage(s); });
                text = s.str();
                if (text.compare(0, prefix.size(), prefix) != 0)
                    text = "PREFIX-CLOBBERED";
                else
                    text = text.substr(prefix.size());
            }
            else if (w[1] == "C" || w[1] == "D")
            {
                capture_buf cb;
                std::cout.flush();
                auto* old = std::cout.rdbuf(&cb);
                e = guarded([&] {
                    if (w[1] == "C")
                        st.p->usage(std::cout);
                    else
                        st.p->usage();
                });
                std::cout.flush();
                std::cout.rdbuf(old);
                text = cb.data;
            }
            else if (w[1] == "P")
            {
                // a real pipe: the writing side is an ofstream on /proc/self/fd/N
                int fds[2];
                if (pipe(fds) != 0)
                {
                    out("U skip");
                    continue;
                }
                std::string got;
                std::thread reader([&] {
                    char buf[4096];
                    ssize_t n;
                    while ((n = read(fds[0], buf, sizeof buf)) > 0)
                        got.append(buf, static_cast<std::size_t>(n));
                });
                {
                    std::ofstream f("/proc/self/fd/" + std::to_string(fds[1]));
                    e = guarded([&] { st.p->usage(f); });
                    f.flush();
                }
                close(fds[1]);
                reader.join();
                close(fds[0]);
                text = got;
            }
            out(e.empty() ? "U ok " + hex(text) : "U !" + e);
        }
        else
        {
            std::fprintf(stderr, "driver: unknown command '%s'\n", c.c_str());
            return 98;
        }
    }
    st.reset();
    std::fflush(stdout);
    return 0;
}
