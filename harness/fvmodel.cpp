// fixed_vector vs. bounded-sequence model, instrumented element types, fault enumeration.
// One harness, two oracles: lines "V C06 <key> <detail>" (safety: bounds, size<=capacity, guard
// failures raise and leave the container unchanged, only caller-made elements visible, no
// leak / double destruction, also under injected element throws) and "V C07 <key> <detail>"
// (observable sequence equals a reference std::vector<int> after every step).
#include <memory>

#include <nitro/lang/fixed_vector.hpp>

#include "drv.hpp"

#include <algorithm>
#include <cstdint>
#include <functional>
#include <iterator>
#include <string>
#include <map>
#include <set>
#include <unordered_map>

using namespace drv;
using nitro::lang::fixed_vector;

// ---------------------------------------------------------------------------------------
// instrumentation
struct InjectedFault
{
};

struct Registry
{
    std::unordered_map<const void*, int> live;
    long constructed = 0, destroyed = 0;
    long fault_countdown = 0; // 0 = disarmed
    long ticks = 0;
    std::vector<std::string> errors;

    void error(const std::string& e)
    {
        if (errors.size() < 8)
            errors.push_back(e);
    }
    void tick()
    {
        ++ticks;
        if (fault_countdown > 0 && --fault_countdown == 0)
            throw InjectedFault{};
    }
    void born(const void* p)
    {
        ++constructed;
        if (!live.emplace(p, 1).second)
            error("construct-over-live-object");
    }
    void died(const void* p)
    {
        ++destroyed;
        auto it = live.find(p);
        if (it == live.end())
            error("destroy-of-unknown-or-already-destroyed-object");
        else
            live.erase(it);
    }
    bool alive(const void* p) const
    {
        return live.count(p) != 0;
    }
};

static Registry R;

// id 0: made by the container (value-initialised); id > 0: made by the caller; id -1: husk
// left behind by a move
template <bool Copyable>
struct Elem;

template <>
struct Elem<true>
{
    int id = 0;
    Elem()
    {
        R.born(this);
    }
    explicit Elem(int i) : id(i)
    {
        R.born(this);
    }
    Elem(const Elem& o)
    {
        R.tick();
        id = o.id;
        R.born(this);
    }
    Elem(Elem&& o)
    {
        R.tick();
        id = o.id;
        o.id = -1;
        R.born(this);
    }
    Elem& operator=(const Elem& o)
    {
        R.tick();
        if (!R.alive(this) || !R.alive(&o))
            R.error("assignment-involving-dead-object");
        id = o.id;
        return *this;
    }
    Elem& operator=(Elem&& o)
    {
        R.tick();
        if (!R.alive(this) || !R.alive(&o))
            R.error("assignment-involving-dead-object");
        if (this != &o)
        {
            id = o.id;
            o.id = -1;
        }
        return *this;
    }
    ~Elem()
    {
        R.died(this);
    }
};

template <>
struct Elem<false>
{
    int id = 0;
    Elem()
    {
        R.born(this);
    }
    explicit Elem(int i) : id(i)
    {
        R.born(this);
    }
    Elem(const Elem&) = delete;
    Elem& operator=(const Elem&) = delete;
    Elem(Elem&& o)
    {
        R.tick();
        id = o.id;
        o.id = -1;
        R.born(this);
    }
    Elem& operator=(Elem&& o)
    {
        R.tick();
        if (!R.alive(this) || !R.alive(&o))
            R.error("assignment-involving-dead-object");
        if (this != &o)
        {
            id = o.id;
            o.id = -1;
        }
        return *this;
    }
    ~Elem()
    {
        R.died(this);
    }
};

// ---------------------------------------------------------------------------------------
struct Violation
{
    std::string prop, key, detail;
};

static std::vector<Violation> found;
static std::map<std::string, long> stats;

static void viol(const char* prop, std::string key, const std::string& detail)
{
    for (auto& c : key)
        if (c == ' ')
            c = '-';
    found.push_back({ prop, key, detail });
}

struct Model
{
    std::vector<int> ids;
    std::size_t cap = 0;
};

template <bool C>
struct Slot
{
    std::unique_ptr<fixed_vector<Elem<C>>> v;
    Model m;
};

template <bool C>
struct World
{
    Slot<C> s[2];
    int primary = 0;
    int next_id = 1;
    bool abandoned = false; // a violation was reported; the rest of the sequence is skipped

    Slot<C>& P()
    {
        return s[primary];
    }
    Slot<C>& S()
    {
        return s[1 - primary];
    }
};

static std::string ids_str(const std::vector<int>& v)
{
    std::string r = "[";
    for (std::size_t i = 0; i < v.size(); ++i)
        r += (i ? "," : "") + std::to_string(v[i]);
    return r + "]";
}

// reads everything the public API shows and compares with the model
template <bool C>
static void observe(const char* who, fixed_vector<Elem<C>>& v, Model& m, const std::string& after)
{
    using FV = fixed_vector<Elem<C>>;
    const FV& cv = v;
    std::size_t n = v.size();
    if (n > v.capacity())
    {
        viol("C06", "size-exceeds-capacity", after + ": size " + std::to_string(n) + " capacity " +
                                                 std::to_string(v.capacity()));
        // the same state seen by the bounded-sequence oracle: the reference list never holds more than capacity
        if (n != m.ids.size())
            viol("C07", "size-differs-from-reference", after + ": size " + std::to_string(n) + " reference " +
                                                           std::to_string(m.ids.size()));
        return;
    }
    if (v.capacity() != m.cap)
    {
        viol("C06", "capacity-changed-without-assignment",
             after + ": capacity " + std::to_string(v.capacity()) + " expected " + std::to_string(m.cap));
        return;
    }
    if (v.empty() != (n == 0))
        viol("C07", "empty-disagrees-with-size", after);
    std::vector<int> byidx, byat, fwd, cfwd, rev, crev;
    for (std::size_t i = 0; i < n; ++i)
    {
        byidx.push_back(v[i].id);
        if (&v[i] != v.data() + i || &cv[i] != cv.data() + i)
            viol("C07", "index-address-is-not-data-plus-i", after);
        try
        {
            byat.push_back(v.at(i).id);
            if (&v.at(i) != &v[i] || &cv.at(i) != &cv[i])
                viol("C07", "at-address-differs-from-index", after);
        }
        catch (InjectedFault&)
        {
            throw;
        }
        catch (std::exception&)
        {
            viol("C07", "at-raises-below-size", after + ": at(" + std::to_string(i) + ") size " + std::to_string(n));
            return;
        }
    }
    if (v.begin() != v.data() || cv.begin() != cv.data() || cv.cbegin() != cv.data())
        viol("C07", "begin-is-not-data", after);
    if (static_cast<std::size_t>(v.end() - v.begin()) != n || static_cast<std::size_t>(cv.end() - cv.begin()) != n ||
        static_cast<std::size_t>(cv.cend() - cv.cbegin()) != n)
    {
        viol("C07", "end-minus-begin-is-not-size", after);
        if (static_cast<std::size_t>(v.end() - v.begin()) > n || static_cast<std::size_t>(cv.end() - cv.begin()) > n ||
            static_cast<std::size_t>(cv.cend() - cv.cbegin()) > n)
            viol("C06", "range-exposes-unfilled-slots:begin/end", after);
        return;
    }
    for (auto& e : v)
        fwd.push_back(e.id);
    for (auto& e : cv)
        cfwd.push_back(e.id);
    // reverse iteration with a step bound, checked before dereferencing, so that a range that
    // does not terminate is a verdict and not an out-of-bounds read
    auto rwalk = [&](auto first, auto last, std::vector<int>& out, const char* which) {
        std::size_t steps = 0;
        for (auto it = first; it != last; ++it)
        {
            if (steps >= n)
            {
                viol("C07", std::string("reverse-range-does-not-end-after-size-steps:") + which, after);
                // the same observation for the memory-safety oracle: the range goes on into slots the caller
                // never filled (or beyond the storage)
                viol("C06", std::string("range-exposes-unfilled-slots:") + which, after);
                return false;
            }
            out.push_back((*it).id);
            ++steps;
        }
        return true;
    };
    if (!rwalk(v.rbegin(), v.rend(), rev, "rbegin/rend"))
        return;
    if (!rwalk(cv.rbegin(), cv.rend(), crev, "const rbegin/rend"))
        return;
    std::vector<int> crev2;
    if (!rwalk(cv.crbegin(), cv.crend(), crev2, "crbegin/crend"))
        return;
    std::vector<int> want_rev(m.ids.rbegin(), m.ids.rend());
    // C06: only caller-made elements are visible
    for (int id : byidx)
        if (id <= 0)
        {
            // a C06 verdict; the comparison with the reference below gives C07's verdict on the same state
            viol("C06", id == 0 ? "unfilled-slot-visible" : "moved-from-husk-visible",
                 after + ": " + who + " shows " + ids_str(byidx));
            break;
        }
    if (n != m.ids.size())
    {
        viol("C07", "size-differs-from-reference",
             after + ": " + who + " size " + std::to_string(n) + " shows " + ids_str(byidx) + " reference " +
                 ids_str(m.ids));
        return;
    }
    if (byidx != m.ids)
        viol("C07", "contents-differ-from-reference",
             after + ": " + who + " shows " + ids_str(byidx) + " reference " + ids_str(m.ids));
    else if (byat != m.ids)
        viol("C07", "at-differs-from-index", after);
    else if (fwd != m.ids || cfwd != m.ids)
        viol("C07", "forward-iteration-differs", after + ": " + ids_str(fwd) + " reference " + ids_str(m.ids));
    else if (rev != want_rev || crev != want_rev || crev2 != want_rev)
        viol("C07", "reverse-iteration-differs",
             after + ": " + ids_str(rev) + " reference " + ids_str(want_rev));
    if (n > 0)
    {
        if (&v.front() != v.data() || &v.back() != v.data() + (n - 1) || &cv.front() != cv.data() ||
            &cv.back() != cv.data() + (n - 1))
            viol("C07", "front-back-address", after);
    }
    stats["observations"]++;
    stats["elements-read"] += static_cast<long>(n) * 6;
}

// weak invariants after an injected element throw: bounds, size <= capacity, elements readable
template <bool C>
static void observe_weak(fixed_vector<Elem<C>>& v, const std::string& after)
{
    if (v.size() > v.capacity())
    {
        viol("C06", "size-exceeds-capacity-after-element-throw", after);
        return;
    }
    long sum = 0;
    for (std::size_t i = 0; i < v.size(); ++i)
    {
        if (!R.alive(&v[i]))
            viol("C06", "dead-element-visible-after-element-throw", after);
        sum += v[i].id;
    }
    for (auto& e : v)
        sum += e.id;
    stats["weak-observations"] += 1 + (sum & 0);
}

// a genuine single-pass input iterator: all copies share the position
template <typename E>
struct OnePass
{
    using iterator_category = std::input_iterator_tag;
    using value_type = E;
    using difference_type = std::ptrdiff_t;
    using pointer = const E*;
    using reference = E;
    struct Shared
    {
        std::vector<int> ids;
        std::size_t next = 0;
    };
    std::shared_ptr<Shared> src; // null = end
    E operator*() const
    {
        return E(src->ids[src->next]);
    }
    OnePass& operator++()
    {
        if (++src->next >= src->ids.size())
            src.reset();
        return *this;
    }
    OnePass operator++(int)
    {
        OnePass old = *this;
        ++*this;
        return old;
    }
    bool at_end() const
    {
        return !src || src->next >= src->ids.size();
    }
    bool operator==(const OnePass& o) const
    {
        return at_end() == o.at_end();
    }
    bool operator!=(const OnePass& o) const
    {
        return !(*this == o);
    }
};

// ---------------------------------------------------------------------------------------
// operations
template <bool C>
struct Op
{
    std::string name;
    std::function<void(World<C>&)> run;
};

enum class Guard
{
    must_succeed,
    must_raise
};

// runs f on the primary; f performs the container call.  expect tells whether the call must
// raise; on must_raise the container has to be unchanged (the caller keeps the model as is).
template <bool C, typename F>
static bool call(World<C>& w, const std::string& name, Guard expect, F&& f)
{
    bool raised = false;
    try
    {
        f();
    }
    catch (InjectedFault&)
    {
        throw;
    }
    catch (std::exception&)
    {
        raised = true;
    }
    if (expect == Guard::must_raise && !raised)
    {
        viol("C06", "unsatisfiable-operation-did-not-raise:" + name.substr(0, name.find('(')), name);
        w.abandoned = true;
        return false;
    }
    if (expect == Guard::must_succeed && raised)
    {
        viol("C06", "satisfiable-operation-raised:" + name.substr(0, name.find('(')), name);
        w.abandoned = true;
        return false;
    }
    return !raised;
}

template <bool C>
static void resync(Slot<C>& s)
{
    // adopt what the container shows where the property leaves the result open
    s.m.ids.clear();
    for (std::size_t i = 0; i < s.v->size() && i < s.v->capacity(); ++i)
        s.m.ids.push_back((*s.v)[i].id);
}

// positions / lengths the alphabet enumerates: every value for the small capacities, a sparse set
// around powers of two and the ends for the large ones (the alphabet would explode otherwise)
static std::vector<std::size_t> pts(std::size_t cap, std::size_t upto)
{
    std::vector<std::size_t> r;
    if (cap <= 8)
    {
        for (std::size_t k = 0; k <= upto; ++k)
            r.push_back(k);
        return r;
    }
    std::set<std::size_t> s{ 0, 1, 2, 3, 15, 16, 17, 31, 32, 33, 34, 35, 63, 64, 65, 66, 127, 128, 129, 255, 256, 257,
                             upto / 2, upto };
    if (upto >= 3)
    {
        s.insert(upto - 1);
        s.insert(upto - 2);
        s.insert(upto - 3);
    }
    for (std::size_t k : s)
        if (k <= upto)
            r.push_back(k);
    return r;
}

template <bool C>
static std::vector<Op<C>> alphabet(std::size_t cap)
{
    using E = Elem<C>;
    using FV = fixed_vector<E>;
    std::vector<Op<C>> ops;
    auto full = [](World<C>& w) { return w.P().m.ids.size() >= w.P().m.cap; };

    ops.push_back({ "emplace_back(v)", [full](World<C>& w) {
                       int id = w.next_id++;
                       std::size_t idx = 9999;
                       bool f = full(w);
                       std::size_t old = w.P().m.ids.size();
                       if (call(w, "emplace_back(v)", f ? Guard::must_raise : Guard::must_succeed,
                                [&] { idx = w.P().v->emplace_back(id); }))
                       {
                           w.P().m.ids.push_back(id);
                           if (idx != old)
                               viol("C07", "append-returned-wrong-index", "emplace_back");
                       }
                   } });
    ops.push_back({ "insert(rvalue)", [full](World<C>& w) {
                       int id = w.next_id++;
                       std::size_t idx = 9999;
                       bool f = full(w);
                       std::size_t old = w.P().m.ids.size();
                       if (call(w, "insert(rvalue)", f ? Guard::must_raise : Guard::must_succeed,
                                [&] { idx = w.P().v->insert(E(id)); }))
                       {
                           w.P().m.ids.push_back(id);
                           if (idx != old)
                               viol("C07", "append-returned-wrong-index", "insert(rvalue)");
                       }
                   } });
#ifndef FV_NO_INSERT_LVALUE
    if constexpr (C)
    {
        ops.push_back({ "insert(lvalue)", [full](World<C>& w) {
                           int id = w.next_id++;
                           E e(id);
                           std::size_t idx = 9999;
                           bool f = full(w);
                           std::size_t old = w.P().m.ids.size();
                           if (call(w, "insert(lvalue)", f ? Guard::must_raise : Guard::must_succeed,
                                    [&] { idx = w.P().v->insert(static_cast<const E&>(e)); }))
                           {
                               w.P().m.ids.push_back(id);
                               if (idx != old)
                                   viol("C07", "append-returned-wrong-index", "insert(lvalue)");
                               if (e.id != id)
                                   viol("C07", "lvalue-argument-modified", "insert(lvalue)");
                           }
                       } });
    }
#endif
    if constexpr (C)
    {
        ops.push_back({ "push_back(v)", [full](World<C>& w) {
                           int id = w.next_id++;
                           E e(id);
                           std::size_t idx = 9999;
                           bool f = full(w);
                           std::size_t old = w.P().m.ids.size();
                           if (call(w, "push_back(v)", f ? Guard::must_raise : Guard::must_succeed,
                                    [&] { idx = w.P().v->push_back(e); }))
                           {
                               w.P().m.ids.push_back(id);
                               if (idx != old)
                                   viol("C07", "append-returned-wrong-index", "push_back");
                               if (e.id != id)
                                   viol("C07", "lvalue-argument-modified", "push_back");
                           }
                       } });
    }
    for (std::size_t k : pts(cap, cap))
    {
        std::string nm = "emplace(begin+" + std::to_string(k) + ",v)";
        ops.push_back({ nm, [k, nm](World<C>& w) {
                           int id = w.next_id++;
                           auto& m = w.P().m;
                           bool ok = k <= m.ids.size() && m.ids.size() < m.cap;
                           if (call(w, nm, ok ? Guard::must_succeed : Guard::must_raise,
                                    [&] { w.P().v->emplace(w.P().v->begin() + k, id); }))
                               m.ids.insert(m.ids.begin() + static_cast<long>(k), id);
                       } });
    }
    if constexpr (C)
    {
        // the argument aliases an element of the same container (as std::vector supports)
        for (std::size_t k : pts(cap, cap))
            for (int which = 0; which < 2; ++which)
            {
                std::string nm = "emplace(begin+" + std::to_string(k) + "," + (which ? "self.back()" : "self.front()") + ")";
                ops.push_back({ nm, [k, which, nm](World<C>& w) {
                                   auto& m = w.P().m;
                                   if (m.ids.empty())
                                       return;
                                   std::size_t j = which ? m.ids.size() - 1 : 0;
                                   int id = m.ids[j];
                                   bool ok = k <= m.ids.size() && m.ids.size() < m.cap;
                                   const E& ref = (*w.P().v)[j];
                                   if (call(w, nm, ok ? Guard::must_succeed : Guard::must_raise,
                                            [&] { w.P().v->emplace(w.P().v->begin() + k, ref); }))
                                       m.ids.insert(m.ids.begin() + static_cast<long>(k), id);
                               } });
            }
        ops.push_back({ "push_back(self.front())", [full](World<C>& w) {
                           auto& m = w.P().m;
                           if (m.ids.empty())
                               return;
                           int id = m.ids[0];
                           bool f = full(w);
                           const E& ref = (*w.P().v)[0];
                           if (call(w, "push_back(self.front())", f ? Guard::must_raise : Guard::must_succeed,
                                    [&] { w.P().v->push_back(ref); }))
                               m.ids.push_back(id);
                       } });
    }
    for (std::size_t k : pts(cap, cap))
    {
        std::string nm = "erase(begin+" + std::to_string(k) + ")";
        ops.push_back({ nm, [k, nm](World<C>& w) {
                           auto& m = w.P().m;
                           bool ok = k < m.ids.size();
                           if (call(w, nm, ok ? Guard::must_succeed : Guard::must_raise,
                                    [&] { w.P().v->erase(w.P().v->begin() + k); }))
                               m.ids.erase(m.ids.begin() + static_cast<long>(k));
                       } });
    }
    ops.push_back({ "pop_back()", [](World<C>& w) {
                       auto& m = w.P().m;
                       if (call(w, "pop_back()", m.ids.empty() ? Guard::must_raise : Guard::must_succeed,
                                [&] { w.P().v->pop_back(); }))
                           m.ids.pop_back();
                   } });
    for (std::size_t i : pts(cap, cap))
    {
        std::string nm = "at(" + std::to_string(i) + ")";
        ops.push_back({ nm, [i, nm](World<C>& w) {
                           auto& m = w.P().m;
                           bool ok = i < m.ids.size();
                           int got = -99;
                           const FV& cv = *w.P().v;
                           int cgot = -99;
                           if (call(w, nm, ok ? Guard::must_succeed : Guard::must_raise, [&] {
                                   got = w.P().v->at(i).id;
                                   cgot = cv.at(i).id;
                               }))
                           {
                               if (got != m.ids[i] || cgot != m.ids[i])
                                   viol("C07", "at-returned-wrong-element", nm);
                           }
                           // the const overload has its own guard
                           if (!ok)
                               call(w, "const " + nm, Guard::must_raise, [&] { cgot = cv.at(i).id; });
                       } });
    }
    // std::get<I>: compile-time indices 0..3
    auto getop = [&](auto I) {
        constexpr std::size_t i = decltype(I)::value;
        if (i > cap)
            return;
        std::string nm = "get<" + std::to_string(i) + ">";
        ops.push_back({ nm, [nm](World<C>& w) {
                           auto& m = w.P().m;
                           constexpr std::size_t i = decltype(I)::value;
                           bool ok = i < m.ids.size();
                           int got = -99;
                           if (call(w, nm, ok ? Guard::must_succeed : Guard::must_raise,
                                    [&] { got = std::get<i>(*w.P().v).id; }))
                               if (got != m.ids[i])
                                   viol("C07", "get-returned-wrong-element", nm);
                       } });
    };
    getop(std::integral_constant<std::size_t, 0>{});
    getop(std::integral_constant<std::size_t, 1>{});
    getop(std::integral_constant<std::size_t, 2>{});
    getop(std::integral_constant<std::size_t, 3>{});

    if constexpr (C)
    {
        // range insert at every position, every length 0..cap+1
        for (std::size_t k : pts(cap, cap))
            for (std::size_t L : pts(cap, cap + 1))
            {
                std::string nm = "insert(begin+" + std::to_string(k) + ",range" + std::to_string(L) + ")";
                ops.push_back({ nm, [k, L, nm](World<C>& w) {
                                   auto& m = w.P().m;
                                   std::vector<E> src;
                                   src.reserve(L);
                                   std::vector<int> ids;
                                   for (std::size_t j = 0; j < L; ++j)
                                   {
                                       ids.push_back(w.next_id++);
                                       src.emplace_back(ids.back());
                                   }
                                   std::size_t n = m.ids.size();
                                   bool raised = false;
                                   try
                                   {
                                       w.P().v->insert(w.P().v->begin() + k, src.begin(), src.end());
                                   }
                                   catch (InjectedFault&)
                                   {
                                       throw;
                                   }
                                   catch (std::exception&)
                                   {
                                       raised = true;
                                   }
                                   if (k > n)
                                   {
                                       // position beyond the end: must raise, nothing changes
                                       if (!raised)
                                       {
                                           viol("C06", "unsatisfiable-operation-did-not-raise:insert-range", nm);
                                           w.abandoned = true;
                                       }
                                       return;
                                   }
                                   if (k == n)
                                   {
                                       // append: defined by the property
                                       if (n + L <= m.cap)
                                       {
                                           if (raised)
                                           {
                                               viol("C06", "satisfiable-operation-raised:insert-range", nm);
                                               w.abandoned = true;
                                               return;
                                           }
                                           m.ids.insert(m.ids.end(), ids.begin(), ids.end());
                                       }
                                       else
                                       {
                                           if (!raised)
                                           {
                                               viol("C06", "unsatisfiable-operation-did-not-raise:insert-range", nm);
                                               w.abandoned = true;
                                               return;
                                           }
                                           // a range operation may be applied partially: old
                                           // contents must remain a prefix, new ones a prefix of the range
                                           std::vector<int> all = m.ids;
                                           all.insert(all.end(), ids.begin(), ids.end());
                                           resync(w.P());
                                           bool okp = m.ids.size() >= n && m.ids.size() <= m.cap &&
                                                      std::equal(m.ids.begin(), m.ids.end(), all.begin());
                                           if (!okp)
                                               viol("C07", "failed-range-append-left-unrelated-contents", nm);
                                       }
                                       return;
                                   }
                                   // interior position: overwrite or shift is left open by the property;
                                   // only the fit is decided: k + L > cap can never fit, size + L <= cap fits
                                   if (k + L > m.cap && !raised)
                                   {
                                       viol("C06", "unsatisfiable-operation-did-not-raise:insert-range", nm);
                                       w.abandoned = true;
                                       return;
                                   }
                                   if (n + L <= m.cap && raised)
                                   {
                                       viol("C06", "satisfiable-operation-raised:insert-range", nm);
                                       w.abandoned = true;
                                       return;
                                   }
                                   for (auto& e : src)
                                       if (e.id <= 0)
                                           viol("C07", "range-source-modified", nm);
                                   resync(w.P());
                               } });
            }
        for (std::size_t L : pts(cap, cap + 1))
        {
            std::string nm = "push_back(single-pass-range" + std::to_string(L) + ")";
            ops.push_back({ nm, [L, nm](World<C>& w) {
                               auto& m = w.P().m;
                               OnePass<E> first, last;
                               std::vector<int> ids;
                               for (std::size_t j = 0; j < L; ++j)
                                   ids.push_back(w.next_id++);
                               if (L)
                               {
                                   first.src = std::make_shared<typename OnePass<E>::Shared>();
                                   first.src->ids = ids;
                               }
                               std::size_t n = m.ids.size();
                               bool fits = n + L <= m.cap;
                               if (call(w, nm, fits ? Guard::must_succeed : Guard::must_raise,
                                        [&] { w.P().v->push_back(first, last); }))
                                   m.ids.insert(m.ids.end(), ids.begin(), ids.end());
                               else if (!w.abandoned)
                               {
                                   std::vector<int> all = m.ids;
                                   all.insert(all.end(), ids.begin(), ids.end());
                                   resync(w.P());
                                   if (!(m.ids.size() >= n && m.ids.size() <= m.cap &&
                                         std::equal(m.ids.begin(), m.ids.end(), all.begin())))
                                       viol("C07", "failed-range-append-left-unrelated-contents", nm);
                               }
                           } });
        }
        ops.push_back({ "insert(end,initializer_list2)", [](World<C>& w) {
                           auto& m = w.P().m;
                           int a = w.next_id++, b = w.next_id++;
                           std::initializer_list<E> il = { E(a), E(b) };
                           std::size_t n = m.ids.size();
                           bool fits = n + 2 <= m.cap;
                           if (call(w, "insert(end,initializer_list2)", fits ? Guard::must_succeed : Guard::must_raise,
                                    [&] { w.P().v->insert(w.P().v->end(), il); }))
                           {
                               m.ids.push_back(a);
                               m.ids.push_back(b);
                           }
                           else if (!w.abandoned)
                           {
                               std::vector<int> all = m.ids;
                               all.push_back(a);
                               all.push_back(b);
                               resync(w.P());
                               if (!(m.ids.size() >= n && m.ids.size() <= m.cap &&
                                     std::equal(m.ids.begin(), m.ids.end(), all.begin())))
                                   viol("C07", "failed-range-append-left-unrelated-contents", "insert(end,initializer_list)");
                           }
                       } });
        for (std::size_t L : pts(cap, cap + 1))
        {
            std::string nm = "push_back(range" + std::to_string(L) + ")";
            ops.push_back({ nm, [L, nm](World<C>& w) {
                               auto& m = w.P().m;
                               std::vector<E> src;
                               src.reserve(L);
                               std::vector<int> ids;
                               for (std::size_t j = 0; j < L; ++j)
                               {
                                   ids.push_back(w.next_id++);
                                   src.emplace_back(ids.back());
                               }
                               std::size_t n = m.ids.size();
                               bool fits = n + L <= m.cap;
                               if (call(w, nm, fits ? Guard::must_succeed : Guard::must_raise,
                                        [&] { w.P().v->push_back(src.begin(), src.end()); }))
                                   m.ids.insert(m.ids.end(), ids.begin(), ids.end());
                               else if (!w.abandoned)
                               {
                                   std::vector<int> all = m.ids;
                                   all.insert(all.end(), ids.begin(), ids.end());
                                   resync(w.P());
                                   if (!(m.ids.size() >= n && m.ids.size() <= m.cap &&
                                         std::equal(m.ids.begin(), m.ids.end(), all.begin())))
                                       viol("C07", "failed-range-append-left-unrelated-contents", nm);
                               }
                           } });
        }
        ops.push_back({ "S=copy-construct(P)", [](World<C>& w) {
                           w.S().v.reset();
                           w.S().v = std::make_unique<FV>(static_cast<const FV&>(*w.P().v));
                           w.S().m = w.P().m;
                       } });
        ops.push_back({ "S=P (copy-assign)", [](World<C>& w) {
                           auto&& r = (*w.S().v = static_cast<const FV&>(*w.P().v));
                           if (&r != w.S().v.get())
                               viol("C07", "assignment-does-not-return-the-target", "copy-assign");
                           w.S().m.ids = w.P().m.ids;
                           w.S().m.cap = w.S().v->capacity();
                           if (w.S().m.cap < w.S().m.ids.size())
                               viol("C06", "size-exceeds-capacity", "after copy-assign");
                       } });
        ops.push_back({ "P=P (self copy-assign)", [](World<C>& w) {
                           FV& self = *w.P().v;
                           *w.P().v = static_cast<const FV&>(self);
                           w.P().m.cap = w.P().v->capacity();
                       } });
        for (std::size_t L : { std::size_t(0), std::size_t(2) })
        {
            std::string nm = "P={list" + std::to_string(L) + "}";
            ops.push_back({ nm, [L](World<C>& w) {
                               int a = w.next_id++, b = w.next_id++;
                               if (L == 0)
                               {
                                   *w.P().v = std::initializer_list<E>{};
                                   w.P().m.ids.clear();
                               }
                               else
                               {
                                   *w.P().v = { E(a), E(b) };
                                   w.P().m.ids = { a, b };
                               }
                               w.P().m.cap = w.P().v->capacity();
                               if (w.P().m.cap < w.P().m.ids.size())
                                   viol("C06", "size-exceeds-capacity", "after list-assign");
                           } });
        }
        ops.push_back({ "S=construct(cap,iterable(P))", [](World<C>& w) {
                           // a container built from an iterable: vector of copies of P's elements
                           std::vector<E> src(w.P().v->begin(), w.P().v->end());
                           std::size_t cap = w.P().m.cap;
                           w.S().v.reset();
                           w.S().v = std::make_unique<FV>(cap, src);
                           w.S().m = w.P().m;
                       } });
        ops.push_back({ "S=construct(size-1,iterable(P)) too small", [](World<C>& w) {
                           std::vector<E> src(w.P().v->begin(), w.P().v->end());
                           if (src.empty())
                               return;
                           bool raised = false;
                           try
                           {
                               FV tmp(src.size() - 1, src);
                           }
                           catch (InjectedFault&)
                           {
                               throw;
                           }
                           catch (std::exception&)
                           {
                               raised = true;
                           }
                           if (!raised)
                               viol("C06", "unsatisfiable-operation-did-not-raise:construct-from-larger-iterable", "");
                       } });
    }
    ops.push_back({ "S=move-construct(P)", [](World<C>& w) {
                       w.S().v.reset();
                       w.S().v = std::make_unique<FV>(std::move(*w.P().v));
                       w.S().m = w.P().m;
                       // the moved-from container is valid but unspecified: adopt what it shows
                       if (w.P().v->size() > w.P().v->capacity())
                       {
                           viol("C06", "size-exceeds-capacity", "moved-from container");
                           w.abandoned = true;
                           return;
                       }
                       // ... except its capacity: it is fixed at construction, and the source of a move is
                       // not being assigned to
                       if (w.P().v->capacity() != w.P().m.cap)
                       {
                           viol("C06", "capacity-of-the-moved-from-container-changed",
                                "move construction: " + std::to_string(w.P().m.cap) + " -> " +
                                    std::to_string(w.P().v->capacity()));
                           w.abandoned = true;
                           return;
                       }
                       if (w.P().v->size() > 0 && w.P().v->data() == nullptr)
                       {
                           viol("C06", "moved-from-container-has-size-but-no-storage", "");
                           w.abandoned = true;
                           return;
                       }
                       resync(w.P());
                   } });
    ops.push_back({ "S=move(P) (move-assign)", [](World<C>& w) {
                       auto&& r = (*w.S().v = std::move(*w.P().v));
                       if (&r != w.S().v.get())
                           viol("C07", "assignment-does-not-return-the-target", "move-assign");
                       w.S().m.ids = w.P().m.ids;
                       w.S().m.cap = w.S().v->capacity();
                       if (w.P().v->size() > w.P().v->capacity())
                       {
                           viol("C06", "size-exceeds-capacity", "moved-from container");
                           w.abandoned = true;
                           return;
                       }
                       if (w.P().v->capacity() != w.P().m.cap)
                       {
                           viol("C06", "capacity-of-the-moved-from-container-changed",
                                "move assignment: " + std::to_string(w.P().m.cap) + " -> " +
                                    std::to_string(w.P().v->capacity()));
                           w.abandoned = true;
                           return;
                       }
                       if (w.P().v->size() > 0 && w.P().v->data() == nullptr)
                       {
                           viol("C06", "moved-from-container-has-size-but-no-storage", "");
                           w.abandoned = true;
                           return;
                       }
                       resync(w.P());
                   } });
    ops.push_back({ "P=move(P) (self move-assign)", [](World<C>& w) {
                       FV& self = *w.P().v;
                       *w.P().v = std::move(self);
                       // valid but unspecified contents; the capacity stays
                       if (w.P().v->size() > w.P().v->capacity() || w.P().v->capacity() != w.P().m.cap)
                       {
                           viol("C06", "self-move-assignment-changed-capacity-or-broke-size", "");
                           w.abandoned = true;
                           return;
                       }
                       resync(w.P());
                   } });
    ops.push_back({ "swap-roles", [](World<C>& w) { w.primary = 1 - w.primary; } });
    return ops;
}

// ---------------------------------------------------------------------------------------
template <bool C>
static void fresh(World<C>& w, std::size_t cap)
{
    using FV = fixed_vector<Elem<C>>;
    for (int i = 0; i < 2; ++i)
    {
        w.s[i].v = std::make_unique<FV>(cap);
        w.s[i].m.ids.clear();
        w.s[i].m.cap = cap;
    }
    w.primary = 0;
    w.next_id = 1;
    w.abandoned = false;
}

template <bool C>
static void check_all(World<C>& w, const std::string& after)
{
    observe("primary", *w.P().v, w.P().m, after);
    if (found.empty())
        observe("secondary", *w.S().v, w.S().m, after);
}

static std::string seq_str(const std::vector<int>& seq)
{
    std::string r;
    for (std::size_t i = 0; i < seq.size(); ++i)
        r += (i ? "." : "") + std::to_string(seq[i]);
    return r;
}

static void registry_check(const std::string& where)
{
    for (auto& e : R.errors)
        viol("C06", e, where);
    R.errors.clear();
}

static std::string last_final;

// plain run of one sequence with all checks
template <bool C>
static void run_plain(const std::vector<Op<C>>& ops, std::size_t cap, const std::vector<int>& seq)
{
    {
        World<C> w;
        fresh(w, cap);
        std::string trail;
        for (int o : seq)
        {
            trail += (trail.empty() ? "" : " ; ") + ops[o].name;
            try
            {
                ops[o].run(w);
            }
            catch (InjectedFault&)
            {
            }
            catch (std::exception& e)
            {
                viol("C06", "unexpected-exception-from:" + ops[o].name.substr(0, ops[o].name.find('(')),
                     trail + ": " + e.what());
                break;
            }
            stats["operations"]++;
            registry_check("after " + trail);
            if (!found.empty() || w.abandoned)
                break;
            check_all(w, "after " + trail);
            if (!found.empty())
                break;
        }
        last_final = trail + " => primary " + ids_str(w.P().m.ids) + " cap " + std::to_string(w.P().m.cap) +
                     ", secondary " + ids_str(w.S().m.ids) + " cap " + std::to_string(w.S().m.cap);
    }
    registry_check("at destruction");
    if (!R.live.empty())
    {
        viol("C06", "element-leaked", std::to_string(R.live.size()) + " element objects alive after destruction");
        R.live.clear();
    }
    stats["sequences"]++;
}

// fault enumeration on op number `at` of the sequence: k = 1, 2, ... until the operation
// completes without the injected throw firing
template <bool C>
static void run_faults(const std::vector<Op<C>>& ops, std::size_t cap, const std::vector<int>& seq, std::size_t at)
{
    for (long k = 1; k < 200; ++k)
    {
        bool fired = false;
        {
            World<C> w;
            fresh(w, cap);
            std::string trail;
            bool bad = false;
            for (std::size_t i = 0; i < at && !bad; ++i)
            {
                trail += (trail.empty() ? "" : " ; ") + ops[seq[i]].name;
                try
                {
                    ops[seq[i]].run(w);
                }
                catch (std::exception&)
                {
                    bad = true;
                }
                if (!found.empty() || w.abandoned)
                    bad = true;
            }
            if (bad)
            {
                // the prefix itself is reported by the plain run
                found.clear();
                R.errors.clear();
                R.fault_countdown = 0;
                w.s[0].v.reset();
                w.s[1].v.reset();
                R.live.clear();
                return;
            }
            trail += (trail.empty() ? "" : " ; ") + ops[seq[at]].name + " [element throw #" + std::to_string(k) + "]";
            R.fault_countdown = k;
            try
            {
                ops[seq[at]].run(w);
            }
            catch (InjectedFault&)
            {
                fired = true;
            }
            catch (std::exception& e)
            {
                // guard exceptions are fine here
            }
            bool still_armed = R.fault_countdown > 0;
            R.fault_countdown = 0;
            if (!fired && !still_armed)
                fired = true; // swallowed inside the operation wrapper (counts as fired)
            if (fired)
            {
                stats["injected-throws"]++;
                found.clear(); // model comparisons are void after an element throw
                registry_check("after " + trail);
                for (int i = 0; i < 2; ++i)
                    if (w.s[i].v)
                        observe_weak(*w.s[i].v, "after " + trail);
            }
            else
                found.clear();
            if (!fired)
            {
                w.s[0].v.reset();
                w.s[1].v.reset();
                registry_check("at destruction");
                R.live.clear();
                return;
            }
            w.s[0].v.reset();
            w.s[1].v.reset();
            registry_check("at destruction after " + trail);
            if (!R.live.empty())
            {
                viol("C06", "element-leaked-after-element-throw",
                     std::to_string(R.live.size()) + " element objects alive after " + trail);
                R.live.clear();
            }
        }
        if (!found.empty())
            return;
    }
}

static std::uint64_t splitmix(std::uint64_t& x)
{
    x += 0x9e3779b97f4a7c15ULL;
    std::uint64_t z = x;
    z = (z ^ (z >> 30)) * 0xbf58476d1ce4e5b9ULL;
    z = (z ^ (z >> 27)) * 0x94d049bb133111ebULL;
    return z ^ (z >> 31);
}

static long reported = 0;

static void flush_found(const std::string& id)
{
    for (auto& v : found)
    {
        out("V " + v.prop + " " + v.key + " seq=" + id + " " + v.detail);
        ++reported;
    }
    found.clear();
}

// trivially copyable element types: a range of a DIFFERENT (convertible) element type must be
// converted element by element, never copied as bytes; ASan watches the source and the storage
template <typename Dst, typename Src>
static void triv_case(const std::string& name, std::size_t cap)
{
    for (std::size_t n = 0; n <= cap; ++n)
    {
        std::vector<Src> src;
        for (std::size_t i = 0; i < n; ++i)
            src.push_back(static_cast<Src>(static_cast<long>(i * 3) - 2));
        // exact-size heap block so that an over-read is a heap-buffer-overflow
        std::unique_ptr<Src[]> block(new Src[n ? n : 1]);
        for (std::size_t i = 0; i < n; ++i)
            block[i] = src[i];
        const Src* first = block.get();
        const Src* last = block.get() + n;
        auto verify = [&](nitro::lang::fixed_vector<Dst>& v, const char* how) {
            if (v.size() != n)
            {
                viol("C07", "trivial-type:" + name + ":size-after-range-" + how, std::to_string(v.size()) + " vs " + std::to_string(n));
                return;
            }
            for (std::size_t i = 0; i < n; ++i)
                if (!(v[i] == static_cast<Dst>(src[i])))
                {
                    viol("C06", "trivial-type:" + name + ":element-is-not-what-the-caller-inserted",
                         std::string(how) + " index " + std::to_string(i));
                    return;
                }
            stats["trivial-type-checks"]++;
        };
        {
            nitro::lang::fixed_vector<Dst> v(cap);
            v.push_back(first, last);
            verify(v, "push_back(pointer range)");
        }
        {
            nitro::lang::fixed_vector<Dst> v(cap);
            v.insert(v.begin(), first, last);
            verify(v, "insert(begin, pointer range)");
        }
        {
            nitro::lang::fixed_vector<Dst> v(cap, src);
            verify(v, "construct(capacity, vector)");
        }
        {
            nitro::lang::fixed_vector<Dst> v(cap);
            v.push_back(src.begin(), src.end());
            verify(v, "push_back(vector iterators)");
            nitro::lang::fixed_vector<Dst> w(v);
            verify(w, "copy construction");
        }
    }
}

// appends spelled with braces are single-element appends
template <typename T>
static void brace_append_case(const std::string& name)
{
    nitro::lang::fixed_vector<T> v(6);
    std::vector<T> ref;
    v.push_back({});
    ref.push_back({});
    v.insert({});
    ref.push_back({});
    v.emplace_back();
    ref.emplace_back();
    T one{};
    v.push_back(one);
    ref.push_back(one);
    if (v.size() != ref.size())
    {
        viol("C07", "trivial-type:" + name + ":brace-spelled-append-is-not-a-single-element-append",
             "size " + std::to_string(v.size()) + " expected " + std::to_string(ref.size()));
        return;
    }
    for (std::size_t i = 0; i < ref.size(); ++i)
        if (!(v[i] == ref[i]))
            viol("C07", "trivial-type:" + name + ":brace-spelled-append-wrong-element", std::to_string(i));
    stats["trivial-type-checks"]++;
}

// a capacity beyond 2^32: positions and indices above 2^32 are ordinary out-of-range arguments
static void huge_case()
{
    const std::size_t big = (std::size_t(1) << 32) + 16;
    nitro::lang::fixed_vector<char> v(big);
    for (int i = 0; i < 4; ++i)
        v.emplace_back(static_cast<char>('a' + i));
    auto unchanged = [&] { return v.size() == 4 && v[0] == 'a' && v[1] == 'b' && v[2] == 'c' && v[3] == 'd'; };
    for (std::size_t off : { std::size_t(0), std::size_t(1), std::size_t(3), std::size_t(4) })
    {
        std::size_t idx = (std::size_t(1) << 32) + off;
        bool raised = false;
        try
        {
            v.erase(v.begin() + idx);
        }
        catch (std::exception&)
        {
            raised = true;
        }
        if (!raised || !unchanged())
        {
            viol("C06", "index-beyond-2^32:erase-did-not-raise-or-changed-the-container", "erase(begin()+2^32+" + std::to_string(off) + ")");
            return;
        }
        raised = false;
        try
        {
            (void)v.at(idx);
        }
        catch (std::exception&)
        {
            raised = true;
        }
        if (!raised)
        {
            viol("C06", "index-beyond-2^32:at-did-not-raise", "at(2^32+" + std::to_string(off) + ")");
            return;
        }
        raised = false;
        try
        {
            v.emplace(v.begin() + idx, 'x');
        }
        catch (std::exception&)
        {
            raised = true;
        }
        if (!raised || !unchanged())
        {
            viol("C06", "index-beyond-2^32:emplace-did-not-raise-or-changed-the-container", "emplace(begin()+2^32+" + std::to_string(off) + ")");
            return;
        }
        raised = false;
        try
        {
            char src[2] = { 'y', 'z' };
            v.insert(v.begin() + idx, src, src + 2);
        }
        catch (std::exception&)
        {
            raised = true;
        }
        if (!raised || !unchanged())
        {
            viol("C06", "index-beyond-2^32:range-insert-did-not-raise-or-changed-the-container", "");
            return;
        }
    }
    stats["huge-capacity-checks"] += 16;
}

static void triv_all()
{
    brace_append_case<int>("int");
    brace_append_case<long>("long");
    brace_append_case<double>("double");
    brace_append_case<std::string>("std::string");
    triv_case<std::int64_t, int>("int64<-int", 5);
    triv_case<std::int64_t, short>("int64<-short", 4);
    triv_case<int, float>("int<-float", 4);
    triv_case<double, int>("double<-int", 3);
    triv_case<long, char>("long<-char", 6);
    triv_case<int, int>("int<-int", 5);
    triv_case<std::int64_t, std::int64_t>("int64<-int64", 5);
    triv_case<unsigned char, int>("uchar<-int", 4);
}

template <bool C>
static int run(int argc, char** argv)
{
    std::string mode = argv[2];
    std::size_t cap = std::strtoull(argv[3], nullptr, 10);
    auto ops = alphabet<C>(cap);
    const std::uint64_t A = ops.size();
    if (mode == "info")
    {
        out("ALPHABET " + std::to_string(A));
        for (std::size_t i = 0; i < ops.size(); ++i)
            out("OP " + std::to_string(i) + " " + ops[i].name);
        return 0;
    }
    if (mode == "huge")
    {
        begin_case({ "CASE", "0" }, 120);
        huge_case();
        flush_found("capacity-beyond-2^32");
        end_case();
        std::string st = "STATS";
        for (auto& kv : stats)
            st += " " + kv.first + "=" + std::to_string(kv.second);
        out(st);
        return 0;
    }
    if (mode == "triv")
    {
        begin_case({ "CASE", "0" }, 60);
        triv_all();
        flush_found("trivially-copyable-element-types");
        end_case();
        std::string st = "STATS";
        for (auto& kv : stats)
            st += " " + kv.first + "=" + std::to_string(kv.second);
        out(st);
        return 0;
    }
    if (mode == "seq")
    {
        // seq <cap> <a.b.c> [fault-at]
        std::vector<int> seq;
        std::stringstream ss(argv[4]);
        std::string tok;
        while (std::getline(ss, tok, '.'))
            seq.push_back(std::atoi(tok.c_str()));
        begin_case({ "CASE", "seq" }, 60);
        run_plain<C>(ops, cap, seq);
        flush_found(argv[4]);
        if (argc > 5)
        {
            run_faults<C>(ops, cap, seq, std::strtoull(argv[5], nullptr, 10));
            flush_found(std::string(argv[4]) + "@" + argv[5]);
        }
        end_case();
        return 0;
    }
    // exh <cap> <depth> <lo> <hi> <block> <faults 0|1>
    // rnd <cap> <len> <lo> <hi> <block> <faults 0|1> <seed>
    std::size_t depth = std::strtoull(argv[4], nullptr, 10);
    std::uint64_t lo = std::strtoull(argv[5], nullptr, 10), hi = std::strtoull(argv[6], nullptr, 10);
    std::uint64_t block = std::strtoull(argv[7], nullptr, 10);
    bool faults = std::atoi(argv[8]) != 0;
    std::uint64_t seed = argc > 9 ? std::strtoull(argv[9], nullptr, 10) : 0;
    std::vector<int> seq(depth);
    for (std::uint64_t b = lo; b < hi; b += block)
    {
        begin_case({ "CASE", std::to_string(b) }, 120);
        for (std::uint64_t i = b; i < std::min(hi, b + block); ++i)
        {
            std::size_t fault_at = depth - 1;
            if (mode == "exh")
            {
                std::uint64_t x = i;
                for (std::size_t d = 0; d < depth; ++d)
                {
                    seq[depth - 1 - d] = static_cast<int>(x % A);
                    x /= A;
                }
            }
            else
            {
                std::uint64_t s = seed * 0x100000001b3ULL + i;
                for (std::size_t d = 0; d < depth; ++d)
                    seq[d] = static_cast<int>(splitmix(s) % A);
                fault_at = static_cast<std::size_t>(splitmix(s) % depth);
            }
            run_plain<C>(ops, cap, seq);
            if (i == lo + (hi - lo) / 2 && found.empty())
                out("SAMPLE " + seq_str(seq) + " " + last_final);
            if (found.empty() && faults)
                run_faults<C>(ops, cap, seq, fault_at);
            if (!found.empty())
                flush_found(seq_str(seq));
            if (reported >= 40)
                break;
        }
        end_case();
        if (reported >= 40)
        {
            // enough witnesses from this shard; the run is already violated
            out("STOPPED after 40 verdicts");
            break;
        }
    }
    std::string st = "STATS";
    for (auto& kv : stats)
        st += " " + kv.first + "=" + std::to_string(kv.second);
    st += " constructed=" + std::to_string(R.constructed) + " destroyed=" + std::to_string(R.destroyed);
    out(st);
    return 0;
}

int main(int argc, char** argv)
{
    init();
    if (argc < 4)
    {
        std::fprintf(stderr, "usage: fvmodel <T|M> <info|exh|rnd|seq> <cap> ...\n");
        return 98;
    }
    int rc = argv[1][0] == 'T' ? run<true>(argc, argv) : run<false>(argc, argv);
    std::fflush(stdout);
    return rc;
}
