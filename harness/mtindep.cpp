// Concurrent INDEPENDENT use: every thread works on its own objects (own parser, own strings, own
// containers).  The results must equal those of the same calls made serially before the threads
// started, and ThreadSanitizer must stay silent: a report means the library keeps hidden shared
// mutable state (a static scratch buffer, a cache, a lazily initialised table).
//
//   mtindep <section> <threads> <iterations> <seed>
//   sections: parse usage format string hash own fv log dl iter
#include <nitro/dl/dl.hpp>
#include <nitro/env/get.hpp>
#include <nitro/except/raise.hpp>
#include <nitro/lang/enumerate.hpp>
#include <nitro/lang/reverse.hpp>
#include <nitro/log/attribute/message.hpp>
#include <nitro/log/attribute/severity.hpp>
#include <nitro/log/attribute/tag.hpp>
#include <nitro/log/attribute/timestamp.hpp>
#include <nitro/log/filter/severity_filter.hpp>
#include <nitro/log/log.hpp>
#include <nitro/format/format.hpp>
#include <nitro/lang/fixed_vector.hpp>
#include <nitro/lang/hash.hpp>
#include <nitro/lang/optional.hpp>
#include <nitro/lang/quaint_ptr.hpp>
#include <nitro/lang/string.hpp>
#include <nitro/lang/tuple_operators.hpp>
#include <nitro/lang/unordered.hpp>
#include <nitro/options/parser.hpp>

#include <atomic>
#include <cstdint>
#include <cstdio>
#include <cstdlib>
#include <functional>
#include <map>
#include <mutex>
#include <sstream>
#include <string>
#include <thread>
#include <tuple>
#include <variant>
#include <vector>

static std::string hex(const std::string& s)
{
    static const char* d = "0123456789abcdef";
    std::string r = "x";
    for (unsigned char c : s)
    {
        r.push_back(d[c >> 4]);
        r.push_back(d[c & 15]);
    }
    return r;
}

static std::uint64_t splitmix(std::uint64_t& s)
{
    std::uint64_t z = (s += 0x9e3779b97f4a7c15ULL);
    z = (z ^ (z >> 30)) * 0xbf58476d1ce4e5b9ULL;
    z = (z ^ (z >> 27)) * 0x94d049bb133111ebULL;
    return z ^ (z >> 31);
}

template <typename F>
static std::string guarded(F&& f)
{
    try
    {
        return f();
    }
    catch (nitro::options::parsing_error& e)
    {
        return std::string("!parsing_error:") + e.what();
    }
    catch (nitro::options::parser_error& e)
    {
        return std::string("!parser_error:") + e.what();
    }
    catch (nitro::except::exception& e)
    {
        return std::string("!nitro:") + e.what();
    }
    catch (std::exception& e)
    {
        return std::string("!std:") + e.what();
    }
}

// ------------------------------------------------------------------------------------------------
// a job: a pure function of its index, returning a printable result
using Job = std::function<std::string()>;

static void declare(nitro::options::parser& p, int variant)
{
    p.option("out", "output file").short_name("o").default_value("a.out").env("NITRO_VERIF_MT_OUT");
    p.option("level", "level {} of {{detail}}").default_value("3");
    p.multi_option("inc", "include path").short_name("I").env("NITRO_VERIF_MT_INC");
    p.toggle("verbose", "more output").short_name("v");
    p.toggle("color", "coloured output").short_name("c").allow_reverse();
    // toggles that take their count from environment words (different words in different declarations)
    p.toggle("feature", "from the environment").short_name("f").env(variant & 1 ? "NITRO_VERIF_MT_YES" : "NITRO_VERIF_MT_NO");
    // (a short name keeps it out of the synopsis' list of long-form toggles: that list is ordered by the toggle
    // objects' ADDRESSES, so two equal declarations need not print the same synopsis when it has two entries)
    p.toggle("other-feature", "from the environment").short_name("F").env(variant & 2 ? "NITRO_VERIF_MT_ON" : "NITRO_VERIF_MT_OFF").default_value(3);
    if (variant & 1)
    {
        auto& g = p.group("advanced", "advanced settings");
        g.option("seed", "random seed").short_name("s").optional();
        g.toggle("dry-run", "do nothing").short_name("n");
    }
    if (variant & 2)
        p.accept_positionals(3);
    else
        p.accept_positionals();
}

static std::string render(const nitro::options::arguments& a, int variant)
{
    std::ostringstream s;
    s << "out=" << hex(a.get("out")) << a.provided("out") << " level=" << a.as<int>("level") << " inc=";
    for (auto& i : a.get_all("inc"))
        s << hex(i) << ",";
    s << " v=" << a.given("verbose") << " c=" << a.given("color") << " f=" << a.given("feature") << a.provided("feature")
      << " of=" << a.given("other-feature");
    if (variant & 1)
        s << " seed=" << (a.provided("seed") ? hex(a.get("seed")) : std::string("-")) << " n=" << a.given("dry-run");
    s << " pos=";
    for (auto& p : a.positionals())
        s << hex(p) << ",";
    return s.str();
}

static const std::vector<std::vector<std::string>> ARGVS = {
    {},
    { "-vvv", "--out=x", "p1", "p2" },
    { "--inc", "a", "-I", "b", "-I=c", "--no-color" },
    { "-vc", "--level", "17", "--", "--out", "-v" },
    { "--nope" },
    { "-o" },
    { "--out=1", "--out=2" },
    { "-vz" },
    { "p1", "p2", "p3", "p4" },
    { "--color", "--no-color" },
    { "--verbose=1" },
    { "---x" },
    { "-s", "42", "-n", "-nn", "x" },
    { "--level=abc" },
    { std::string(300, 'v').insert(0, "-") },
    { "--out=" + std::string(5000, 'q'), "-I", std::string(300, 'i') },
};

static std::vector<Job> jobs_parse()
{
    std::vector<Job> j;
    for (int variant = 0; variant < 4; ++variant)
        for (std::size_t k = 0; k < ARGVS.size(); ++k)
            j.push_back([variant, k] {
                return guarded([&] {
                    nitro::options::parser p("prog", "about this program");
                    declare(p, variant);
                    std::vector<const char*> argv{ "prog" };
                    for (auto& t : ARGVS[k])
                        argv.push_back(t.c_str());
                    auto a = p.parse(static_cast<int>(argv.size()), argv.data());
                    std::string first = render(a, variant);
                    // the same parser once more
                    auto b = p.parse(static_cast<int>(argv.size()), argv.data());
                    return first + " | " + render(b, variant);
                });
            });
    return j;
}

static std::vector<Job> jobs_usage()
{
    std::vector<Job> j;
    for (int variant = 0; variant < 4; ++variant)
        for (int pre = 0; pre < 3; ++pre)
            j.push_back([variant, pre] {
                return guarded([&] {
                    nitro::options::parser p(std::string("prog") + std::to_string(variant), "about this program, at some length");
                    declare(p, variant);
                    std::ostringstream s;
                    s << std::string(static_cast<std::size_t>(pre) * 37, '#');
                    p.usage(s);
                    return hex(s.str());
                });
            });
    return j;
}

static std::vector<Job> jobs_format()
{
    std::vector<Job> j;
    const std::vector<std::string> fmts = { "", "{}", "a{}b{}c", "{{}}", "{ {}, {}, {} }", "}{", "{}{}{}{}{}{}{}{}{}{}{}{}{}{}{}{}{}{}",
                                            std::string(300, 'L') + "{}" };
    for (auto& f : fmts)
        for (int extra = -1; extra <= 1; ++extra)
            j.push_back([f, extra] {
                return guarded([&] {
                    std::size_t k = 0;
                    for (std::size_t i = 0; i + 1 < f.size(); ++i)
                        if (f[i] == '{' && f[i + 1] == '}')
                        {
                            ++k;
                            ++i;
                        }
                    long n = static_cast<long>(k) + extra;
                    auto fo = nitro::format(f);
                    for (long i = 0; i < n; ++i)
                    {
                        if (i % 3 == 0)
                            fo % i;
                        else if (i % 3 == 1)
                            fo % std::string("{}s") ;
                        else
                            fo % 2.5;
                    }
                    return hex(fo.str());
                });
            });
    for (int n = 0; n < 6; ++n)
        j.push_back([n] {
            return guarded([&]() -> std::string {
                switch (n)
                {
                case 0:
                    nitro::except::raise("plain");
                case 1:
                    nitro::except::raise("a", 1, "b", 2.5, 'c');
                case 2:
                    nitro::except::raise(std::string(300, 'm'), -7);
                case 3:
                    nitro::except::raise("mask 0x", std::hex, 255);
                case 4:
                    nitro::except::raise(255, " after hex");
                default:
                    nitro::except::raise(nitro::format("<{}|{}>") % n % "x");
                }
            });
        });
    return j;
}

static std::vector<Job> jobs_string()
{
    std::vector<Job> j;
    const std::vector<std::string> subjects = { "", "a,b,,c", ",", "abab", "aaa", std::string(2000, 'x') + "," + std::string(40, 'y'),
                                                "no separator here", "a, b, c, ", "--x--y--" };
    const std::vector<std::string> seps = { ",", "ab", "aa", "--", ", ", std::string(20, 'x') };
    for (auto& s : subjects)
        for (auto& sep : seps)
            j.push_back([s, sep] {
                return guarded([&] {
                    auto parts = nitro::lang::split(s, sep);
                    std::string r = std::to_string(parts.size()) + ":";
                    for (auto& p : parts)
                        r += hex(p) + ",";
                    std::string c = s;
                    nitro::lang::replace_all(c, sep, "<" + sep + ">");
                    r += " repl=" + hex(c);
                    // replacements that are shorter than / as long as the pattern, and the empty one
                    for (const std::string& rep : { std::string(), std::string("x"), std::string(sep.size(), '#'), sep + sep })
                    {
                        std::string d = s;
                        nitro::lang::replace_all(d, sep, rep);
                        r += "," + hex(d);
                    }
                    r += " join=" + hex(nitro::lang::join(parts, sep));
                    r += " sw=" + std::to_string(nitro::lang::starts_with(s, sep));
                    std::vector<int> nums{ 1, -2, 30 };
                    r += " ji=" + nitro::lang::join(nums.begin(), nums.end(), sep);
                    return r;
                });
            });
    return j;
}

struct Rec : nitro::lang::tuple_operators<Rec>
{
    std::string s;
    double d;
    int i;
    Rec(std::string s, double d, int i) : s(std::move(s)), d(d), i(i)
    {
    }
    auto as_tuple() const
    {
        return std::tie(s, d, i);
    }
};

static std::vector<Job> jobs_hash()
{
    std::vector<Job> j;
    for (int n = 0; n < 24; ++n)
        j.push_back([n] {
            return guarded([&] {
                using nitro::lang::hash;
                std::ostringstream s;
                std::string str(static_cast<std::size_t>(n) * 13, static_cast<char>('a' + n));
                s << hash(str) << " " << hash(std::make_tuple(n, str, 'x')) << " " << hash(std::make_pair(str, n)) << " "
                  << hash(Rec(str, n * 0.5, n)) << " " << hash(std::variant<int, std::string>(str)) << " "
                  << (Rec(str, 0.5, n) < Rec(str, 0.5, n + 1)) << (Rec(str, 0.5, n) == Rec(str, 0.5, n));
                nitro::lang::unordered_set<Rec> set;
                for (int k = 0; k < 40; ++k)
                    set.insert(Rec(str, k * 0.25, k % 7));
                s << " " << set.size() << " " << set.count(Rec(str, 1.0, 4)) << set.count(Rec(str, 1.0, 5));
                return s.str();
            });
        });
    return j;
}

static std::atomic<long> live{ 0 };
struct Obj
{
    std::string text;
    char pad[96];
    explicit Obj(std::string t) : text(std::move(t))
    {
        pad[0] = 1;
        live.fetch_add(1, std::memory_order_relaxed);
    }
    Obj(const Obj& o) : text(o.text)
    {
        live.fetch_add(1, std::memory_order_relaxed);
    }
    ~Obj()
    {
        live.fetch_sub(1, std::memory_order_relaxed);
    }
};

static std::vector<Job> jobs_own()
{
    std::vector<Job> j;
    for (int n = 0; n < 16; ++n)
        j.push_back([n] {
            return guarded([&] {
                std::ostringstream s;
                {
                    nitro::lang::fixed_vector<std::string> v(static_cast<std::size_t>(n) + 2);
                    for (int k = 0; k <= n; ++k)
                        v.emplace_back(std::string(static_cast<std::size_t>(k) * 5, 'e') + std::to_string(k));
                    v.erase(v.begin());
                    v.emplace(v.begin(), "front");
                    nitro::lang::fixed_vector<std::string> w(v);
                    nitro::lang::fixed_vector<std::string> m(std::move(v));
                    for (auto& e : w)
                        s << e << ",";
                    s << m.size() << "/" << m.capacity() << " ";
                    try
                    {
                        m.emplace_back("x");
                        m.emplace_back("y");
                        m.emplace_back("z");
                    }
                    catch (std::exception&)
                    {
                        s << "full ";
                    }
                    std::vector<nitro::lang::quaint_ptr> owners;
                    for (int k = 0; k < n + 3; ++k)
                        owners.push_back(nitro::lang::make_quaint<Obj>("obj" + std::to_string(k)));
                    owners[0] = std::move(owners[1]);
                    owners[2].reset();
                    s << owners[0].as<Obj>().text << (owners[1].get() == nullptr) << (owners[2].get() == nullptr) << " ";
                    nitro::lang::optional<Obj> o1(Obj("opt")), o2;
                    o2 = o1;
                    o1 = nitro::lang::optional<Obj>();
                    s << (*o2).text << static_cast<bool>(o1);
                }
                return s.str();
            });
        });
    return j;
}

// fixed_vector of trivially destructible and of non-trivial element types: every container is created,
// filled, copied, assigned, moved and destroyed by one thread only
template <typename E, typename Mk>
static std::string fv_job(int n, Mk&& mk)
{
    return guarded([&] {
        std::ostringstream s;
        std::size_t cap = n % 3 == 0 ? 8 : (n % 3 == 1 ? 64 : 2048);
        for (int round = 0; round < 3; ++round)
        {
            nitro::lang::fixed_vector<E> v(cap);
            for (std::size_t i = 0; i < cap - (static_cast<std::size_t>(n) % 3); ++i)
                v.emplace_back(mk(n * 100000 + round * 10000 + static_cast<int>(i)));
            nitro::lang::fixed_vector<E> c(v);
            nitro::lang::fixed_vector<E> a(cap);
            a = v;
            std::size_t bad = 0;
            for (std::size_t i = 0; i < v.size(); ++i)
                bad += !(v.at(i) == mk(n * 100000 + round * 10000 + static_cast<int>(i))) + !(c[i] == v[i]) + !(a[i] == v[i]);
            nitro::lang::fixed_vector<E> m(std::move(c));
            v.erase(v.begin());
            v.pop_back();
            // the other ways of adding elements, and list assignment with a list that fills the capacity exactly
            {
                const E lv = mk(n * 7 + round);
                v.push_back(lv);
                v.pop_back();
#ifndef FV_NO_INSERT_LVALUE
                v.insert(lv); // (does not compile on a tree whose insert(const T&) is broken: lib/fvrun.py probes it)
                v.pop_back();
#endif
                v.insert(mk(n * 7 + round + 1));
                v.pop_back();
                v.emplace(v.begin(), mk(5));
                v.erase(v.begin());
                nitro::lang::fixed_vector<E> l4(4);
                l4 = { mk(n), mk(n + 1), mk(n + 2), mk(n + 3) };
                nitro::lang::fixed_vector<E> l2(4);
                l2 = { mk(round), mk(n) };
                std::vector<E> src{ mk(1), mk(2), mk(3) };
                nitro::lang::fixed_vector<E> r(8);
                r.push_back(src.begin(), src.end());
                r.insert(r.begin() + 1, src.begin(), src.end());
                bad += !(l4[3] == mk(n + 3)) + !(l2[1] == mk(n)) + !(r[1] == mk(1)) + !(r[4] == mk(2)) + (l4.size() != 4) + (l2.size() != 2) +
                       (r.size() != 6);
            }
            try
            {
                while (true)
                    a.emplace_back(mk(-1));
            }
            catch (std::exception&)
            {
            }
            s << v.size() << "/" << v.capacity() << ":" << m.size() << ":" << a.size() << ":" << bad << " ";
        }
        return s.str();
    });
}

static std::vector<Job> jobs_fv()
{
    std::vector<Job> j;
    for (int n = 0; n < 9; ++n)
    {
        j.push_back([n] { return fv_job<std::int64_t>(n, [](int x) { return static_cast<std::int64_t>(x) * 3; }); });
        j.push_back([n] { return fv_job<int>(n, [](int x) { return x; }); });
        j.push_back([n] { return fv_job<std::string>(n, [](int x) { return "element number " + std::to_string(x); }); });
    }
    return j;
}

// ------------------------------------------------------------------------------------------------
// logging: the logger TYPE is shared (that is how the library is used), the sink writes into a buffer of the
// calling thread; what a thread's statements produce must not depend on what other threads log
static thread_local std::string log_capture;
struct CaptureSink
{
    void sink(nitro::log::severity_level, const std::string& rec)
    {
        log_capture += rec;
        log_capture += '\n';
    }
};
using LogRec = nitro::log::record<nitro::log::tag_attribute, nitro::log::message_attribute, nitro::log::severity_attribute,
                                  nitro::log::timestamp_attribute>;
template <typename R>
struct LogFmt
{
    std::string format(R& r)
    {
        return std::to_string(static_cast<int>(r.severity())) + "|" + std::string(r.tag()) + "|" + r.message();
    }
};
template <typename R>
using LogFilter = nitro::log::filter::severity_filter<R>;
using Log = nitro::log::logger<LogRec, LogFmt, CaptureSink, LogFilter>;
// a second logger whose runtime threshold is raised by the main thread before the worker threads start: the
// threshold is a property of the logger, not of the thread that set it
template <typename R>
using LogFilter2 = nitro::log::filter::severity_filter<R, 7>;
using Log2 = nitro::log::logger<LogRec, LogFmt, CaptureSink, LogFilter2>;

static std::vector<Job> jobs_log()
{
    std::vector<Job> j;
    for (int n = 0; n < 24; ++n)
        j.push_back([n] {
            return guarded([&] {
                log_capture.clear();
                int lazies = 0;
                std::string text(static_cast<std::size_t>(n) * 9, static_cast<char>('a' + n));
                Log::info() << "job " << n << " " << text;
                Log::warn("tag") << n * 2.5 << ':' << [&] {
                    ++lazies;
                    return std::string("lazy text that is longer than a small buffer ") + std::to_string(n);
                };
                {
                    auto s = Log::error(std::string("t") + std::to_string(n));
                    s << "named ";
                    s << n << [&]() -> const char* {
                        ++lazies;
                        return " c";
                    };
                }
                Log::fatal() << std::hex << 255 - n;
                Log::trace() << n;
                Log2::info() << "below the threshold " << [&] {
                    ++lazies;
                    return std::string("must not be evaluated");
                };
                Log2::warn() << "at the threshold " << n;
                {
                    auto s2 = Log2::debug();
                    s2 << [&] {
                        ++lazies;
                        return std::string("must not be evaluated either");
                    };
                }
                Log2::error("e") << n;
                return log_capture + "lazies=" + std::to_string(lazies);
            });
        });
    return j;
}

// dl and env: every thread opens, uses and closes its own library objects; the environment is only read
static std::string lib_a;
static std::vector<Job> jobs_dl()
{
    std::vector<Job> j;
    for (int n = 0; n < 12; ++n)
        j.push_back([n] {
            return guarded([&]() -> std::string {
                std::ostringstream s;
                s << hex(nitro::env::get("NITRO_VERIF_MT_INC")) << hex(nitro::env::get("NITRO_VERIF_MT_UNSET", "dflt"));
                if (n % 3 == 0)
                {
                    try
                    {
                        nitro::dl::dl missing("/nonexistent/libnitro_verif_mt_" + std::to_string(n) + ".so");
                        s << " opened?";
                    }
                    catch (nitro::dl::exception& e)
                    {
                        s << " E:" << e.dlerror();
                    }
                    return s.str();
                }
                nitro::dl::dl lib(lib_a);
                auto f = lib.load<double(double)>("nitro_verif_fa");
                auto g = f;
                s << " " << f(n) << " " << g(n + 0.5);
                if (n % 3 == 1)
                {
                    try
                    {
                        auto m = lib.load<double(double)>("nitro_verif_missing_" + std::to_string(n));
                        s << " loaded?";
                    }
                    catch (nitro::dl::exception& e)
                    {
                        s << " E:" << e.dlerror();
                    }
                }
                return s.str();
            });
        });
    return j;
}

// owning ranges made once by the main thread; every job COPIES them (its own object) and walks the copy
static const auto shared_rev = nitro::lang::reverse(std::vector<std::string>{ "one", "two", std::string(40, '3'), "four" });
static const auto shared_enum = nitro::lang::enumerate(std::vector<int>{ 5, 6, 7, 8, 9 });
static const auto shared_rev_list = nitro::lang::reverse({ 1, 2, 3 });

static std::vector<Job> jobs_iter()
{
    std::vector<Job> j;
    for (int n = 0; n < 4; ++n)
        j.push_back([n] {
            return guarded([&] {
                std::ostringstream s;
                auto mine = shared_rev;
                auto mine2 = shared_enum;
                auto mine3 = shared_rev_list;
                for (int k = 0; k <= n; ++k)
                {
                    auto again = mine;
                    for (auto&& x : again)
                        s << x << ",";
                }
                for (auto&& e : mine2)
                    s << e.index() << "=" << e.value() << ";";
                for (auto&& x : mine3)
                    s << x;
                return s.str();
            });
        });
    for (int n = 0; n < 16; ++n)
        j.push_back([n] {
            return guarded([&] {
                using nitro::lang::enumerate;
                using nitro::lang::reverse;
                std::ostringstream s;
                std::vector<int> v;
                for (int k = 0; k <= n; ++k)
                    v.push_back(k * 3 + n);
                const std::vector<int>& cv = v;
                for (auto&& e : enumerate(v))
                    e.value() += static_cast<int>(e.index());
                for (auto&& e : enumerate(cv))
                    s << e.index() << "=" << e.value() << ",";
                for (auto&& x : reverse(cv))
                    s << x << ";";
                int arr[4] = { n, n + 1, n + 2, n + 3 }, brr[4] = { 9, 8, 7, n };
                for (auto&& x : reverse(arr))
                {
                    s << x << "/";
                    for (auto&& y : reverse(brr))
                        s << y;
                }
                for (auto e : enumerate(std::vector<std::string>{ "a", std::string(30, 'b'), std::to_string(n) }))
                    s << e.index() << e.value();
                for (auto x : reverse({ n, 2, 3 }))
                    s << x;
                return s.str();
            });
        });
    return j;
}

int main(int argc, char** argv)
{
    if (argc < 5)
    {
        std::fprintf(stderr, "usage: mtindep <section> <threads> <iterations> <seed>\n");
        return 2;
    }
    std::string section = argv[1];
    int threads = std::atoi(argv[2]);
    long iters = std::atol(argv[3]);
    std::uint64_t seed = std::strtoull(argv[4], nullptr, 10);
    setenv("NITRO_VERIF_MT_INC", "e1;e2", 1);
    setenv("NITRO_VERIF_MT_YES", "yes", 1);
    setenv("NITRO_VERIF_MT_NO", "no", 1);
    setenv("NITRO_VERIF_MT_ON", "ON", 1);
    setenv("NITRO_VERIF_MT_OFF", "off", 1);
    unsetenv("NITRO_VERIF_MT_OUT");

    std::vector<Job> jobs;
    if (section == "parse")
        jobs = jobs_parse();
    else if (section == "usage")
        jobs = jobs_usage();
    else if (section == "format")
        jobs = jobs_format();
    else if (section == "string")
        jobs = jobs_string();
    else if (section == "hash")
        jobs = jobs_hash();
    else if (section == "own")
        jobs = jobs_own();
    else if (section == "fv")
        jobs = jobs_fv();
    else if (section == "log")
    {
        nitro::log::filter::severity_filter<LogRec, 7>::set_severity(nitro::log::severity_level::warn);
        jobs = jobs_log();
    }
    else if (section == "dl")
    {
        lib_a = std::getenv("NITRO_VERIF_LIBA") ? std::getenv("NITRO_VERIF_LIBA") : "";
        jobs = jobs_dl();
    }
    else if (section == "iter")
        jobs = jobs_iter();
    else
        return 2;

    // the serial reference, computed twice: a job that is not even serially repeatable is reported as such
    std::vector<std::string> expected;
    long unstable = 0;
    for (auto& j : jobs)
    {
        expected.push_back(j());
        if (j() != expected.back())
            ++unstable;
    }
    if (unstable)
        std::printf("V serially-unrepeatable %ld jobs of section %s\n", unstable, section.c_str());

    std::atomic<int> ready{ 0 };
    std::atomic<long> mismatches{ 0 }, done{ 0 }, overlap_seen{ 0 };
    std::atomic<int> inside{ 0 };
    std::mutex mu;
    std::string first_mismatch;
    std::vector<std::thread> th;
    for (int t = 0; t < threads; ++t)
        th.emplace_back([&, t] {
            std::uint64_t s = seed * 1000003ULL + static_cast<std::uint64_t>(t);
            ready.fetch_add(1, std::memory_order_relaxed);
            while (ready.load(std::memory_order_relaxed) < threads)
                std::this_thread::yield();
            for (long i = 0; i < iters; ++i)
            {
                std::size_t k = static_cast<std::size_t>(splitmix(s) % jobs.size());
                if (inside.fetch_add(1, std::memory_order_relaxed) > 0)
                    overlap_seen.fetch_add(1, std::memory_order_relaxed);
                std::string got = jobs[k]();
                inside.fetch_sub(1, std::memory_order_relaxed);
                done.fetch_add(1, std::memory_order_relaxed);
                if (got != expected[k])
                {
                    if (mismatches.fetch_add(1, std::memory_order_relaxed) == 0)
                    {
                        std::lock_guard<std::mutex> g(mu);
                        first_mismatch = "job " + std::to_string(k) + ": serial " + expected[k].substr(0, 300) + " concurrent " +
                                         got.substr(0, 300);
                    }
                }
            }
        });
    for (auto& t : th)
        t.join();
    if (mismatches.load())
        std::printf("V concurrent-result-differs-from-serial %ld of %ld calls; first: %s\n", mismatches.load(), done.load(),
                    first_mismatch.c_str());
    if (section == "own" && live.load() != 0)
        std::printf("V objects-leaked-or-destroyed-twice live=%ld\n", live.load());
    std::printf("RESULT section=%s threads=%d calls=%ld jobs=%zu overlapping=%ld\n", section.c_str(), threads, done.load(),
                jobs.size(), overlap_seen.load());
    return mismatches.load() ? 1 : 0;
}
