// Driver for nitro::lang::split / join / replace_all / starts_with and nitro::format.
// One result line per command.
#include "drv.hpp"

#include <nitro/format/format.hpp>
#include <nitro/except/raise.hpp>
#include <nitro/lang/string.hpp>

#include <cxxabi.h>
#include <iomanip>
#include <iterator>
#include <algorithm>
#include <cstring>
#include <list>
#include <string_view>

using namespace drv;

static std::string exname(const std::exception& e)
{
    int st = 0;
    char* d = abi::__cxa_demangle(typeid(e).name(), nullptr, nullptr, &st);
    std::string r = (st == 0 && d) ? d : typeid(e).name();
    std::free(d);
    for (auto& c : r)
        if (c == ' ')
            c = '_';
    return r;
}

// element types whose inserters are hostile to a stream that is REUSED between elements or calls: one
// leaves std::hex set on the stream it was given, one writes a part of its text and then throws
struct HexLeak
{
    long v;
};
static std::ostream& operator<<(std::ostream& s, const HexLeak& h)
{
    return s << std::hex << h.v;
}
struct Thrower
{
    long v;
};
static std::ostream& operator<<(std::ostream& s, const Thrower& t)
{
    s << "part";
    if (t.v < 0)
        throw std::runtime_error("element cannot be printed");
    return s << t.v;
}

struct custom_exception : nitro::except::exception
{
    using nitro::except::exception::exception;
};

int main()
{
    init();
    std::string line;
    while (std::getline(std::cin, line))
    {
        auto w = split_ws(line);
        if (w.empty())
            continue;
        const std::string& c = w[0];
        try
        {
            if (c == "CASE")
                begin_case(w, 20.0);
            else if (c == "END")
                end_case();
            else if (c == "SPLIT")
            {
                auto r = nitro::lang::split(unhex(w[1]), unhex(w[2]));
                std::string o = "S ok " + std::to_string(r.size());
                for (auto& p : r)
                    o += " " + hex(p);
                out(o);
            }
            else if (c == "JOIN")
            {
                // JOIN <infix|-> <elems...>   ('-' = default infix argument)
                std::vector<std::string> v;
                for (std::size_t i = 2; i < w.size(); ++i)
                    v.push_back(unhex(w[i]));
                std::string a, b;
                if (w[1] == "-")
                {
                    a = nitro::lang::join(v);
                    b = nitro::lang::join(v.begin(), v.end());
                }
                else
                {
                    a = nitro::lang::join(v, unhex(w[1]));
                    b = nitro::lang::join(v.begin(), v.end(), unhex(w[1]));
                }
                out("J ok " + hex(a) + " " + hex(b));
            }
            else if (c == "JOINI")
            {
                // JOINI <infix> <ints...>: a non-string range, rendered with operator<<
                std::vector<long> v;
                for (std::size_t i = 2; i < w.size(); ++i)
                    v.push_back(std::atol(w[i].c_str()));
                out("J ok " + hex(nitro::lang::join(v.begin(), v.end(), unhex(w[1]))) + " " +
                    hex(nitro::lang::join(v.begin(), v.end(), unhex(w[1]))));
            }
            else if (c == "JOINH" || c == "JOINT")
            {
                // JOINH <infix> <ints...> / JOINT <infix> <ints...>: hostile element inserters (see above)
                std::string infix = unhex(w[1]);
                std::string a;
                if (c == "JOINH")
                {
                    std::vector<HexLeak> v;
                    for (std::size_t i = 2; i < w.size(); ++i)
                        v.push_back(HexLeak{ std::atol(w[i].c_str()) });
                    a = nitro::lang::join(v.begin(), v.end(), infix);
                }
                else
                {
#ifndef STRDRV_JOIN_RANDOM_ACCESS_ONLY
                    std::list<Thrower> v;
#else
                    std::vector<Thrower> v;
#endif
                    for (std::size_t i = 2; i < w.size(); ++i)
                        v.push_back(Thrower{ std::atol(w[i].c_str()) });
                    a = nitro::lang::join(v.begin(), v.end(), infix);
                }
                out("J ok " + hex(a) + " " + hex(a));
            }
            else if (c == "JOINC")
            {
                // JOINC <infix> <chars>: ranges of CHARACTERS (std::string, vector<char>, list<signed char>, char array)
                std::string infix = unhex(w[1]), chars = w.size() > 2 ? unhex(w[2]) : std::string();
                std::vector<char> vc(chars.begin(), chars.end());
                std::string a = nitro::lang::join(chars.begin(), chars.end(), infix);
                std::string b = nitro::lang::join(vc.begin(), vc.end(), infix);
#ifndef STRDRV_JOIN_RANDOM_ACCESS_ONLY
                std::list<signed char> ls(chars.begin(), chars.end());
                std::string c2 = nitro::lang::join(ls.begin(), ls.end(), infix);
#else
                std::string c2 = a;
#endif
                std::vector<unsigned char> vu(chars.begin(), chars.end());
                std::string d = nitro::lang::join(vu.begin(), vu.end(), infix);
                out("J ok " + hex(a) + " " + hex(b == a && c2 == a && d == a ? a : "containers-of-characters-disagree"));
            }
            else if (c == "JOINT2")
            {
                // JOINT2 <infix> <ints...>: the same numbers as unsigned long long, short, bool (!=0), double and as
                // C strings (const char*)
                std::string infix = unhex(w[1]);
                std::vector<unsigned long long> vu;
                std::vector<short> vs;
                std::vector<bool> vb;
                std::vector<double> vd;
                std::vector<std::string> keep;
                for (std::size_t i = 2; i < w.size(); ++i)
                {
                    vu.push_back(std::strtoull(w[i].c_str(), nullptr, 10));
                    vs.push_back(static_cast<short>(std::atoi(w[i].c_str()) % 30000));
                    vb.push_back(std::atoll(w[i].c_str()) % 2 != 0);
                    vd.push_back(static_cast<double>(std::atoi(w[i].c_str()) % 1000) + 0.5);
                    keep.push_back(w[i]);
                }
                std::vector<const char*> vp;
                for (auto& k : keep)
                    vp.push_back(k.c_str());
                out("J ok " + hex(nitro::lang::join(vu.begin(), vu.end(), infix)) + " " +
                    hex(nitro::lang::join(vs.begin(), vs.end(), infix) + "|" + nitro::lang::join(vb.begin(), vb.end(), infix) + "|" +
                        nitro::lang::join(vd.begin(), vd.end(), infix) + "|" + nitro::lang::join(vp.begin(), vp.end(), infix)));
            }
            else if (c == "JOINS")
            {
                // JOINS <infix> <elems...>: the range is read through single-pass input iterators
                // (std::istream_iterator); elements are non-empty and free of white space
                std::string text;
                for (std::size_t i = 2; i < w.size(); ++i)
                    text += unhex(w[i]) + " ";
#ifndef STRDRV_JOIN_RANDOM_ACCESS_ONLY
                std::istringstream in1(text), in2(text);
                auto a = nitro::lang::join(std::istream_iterator<std::string>(in1), std::istream_iterator<std::string>(),
                                           unhex(w[1]));
                std::list<std::string> lst;
                for (std::size_t i = 2; i < w.size(); ++i)
                    lst.push_back(unhex(w[i]));
                auto b = nitro::lang::join(lst.begin(), lst.end(), unhex(w[1])); // bidirectional iterators
                out("J ok " + hex(a) + " " + hex(b));
#else
                // join does not compile for these iterators on this tree (reported by the check): the same elements
                // through a vector
                std::vector<std::string> lst;
                for (std::size_t i = 2; i < w.size(); ++i)
                    lst.push_back(unhex(w[i]));
                auto b = nitro::lang::join(lst.begin(), lst.end(), unhex(w[1]));
                out("J ok " + hex(b) + " " + hex(b));
#endif
            }
            else if (c == "REPL")
            {
                std::string s = unhex(w[1]);
                nitro::lang::replace_all(s, unhex(w[2]), unhex(w[3]));
                out("R ok " + hex(s));
            }
            else if (c == "SW")
            {
                out(std::string("W ok ") + (nitro::lang::starts_with(unhex(w[1]), unhex(w[2])) ? "1" : "0"));
            }
            else if (c == "FMT")
            {
                // FMT <%|a|m> <format> <kind:value>...   kinds: s string, i int, d double, c char
                // % : one operator% per argument;  a : all at once through args(...) (arity 0..6);
                // m : mixed, first half through %, rest through args
                std::string how = w[1];
                auto f = nitro::format(unhex(w[2]));
                std::size_t n = w.size() - 3;
                auto feed = [&](auto& fm, const std::string& a) {
                    char k = a[0];
                    std::string v = a.substr(2);
                    if (k == 's')
                        fm % unhex(v);
                    else if (k == 'i')
                        fm % std::atoi(v.c_str());
                    else if (k == 'l')
                        fm % std::atoll(v.c_str());
                    else if (k == 'd')
                        fm % std::atof(v.c_str());
                    else if (k == 'c')
                        fm % static_cast<char>(std::atoi(v.c_str()));
                    else if (k == 'p')
                        fm % unhex(v).c_str();
                    else if (k == 'b' || k == 'B')
                    {
                        // an lvalue character buffer that is larger than its text (b: char[64], B: const char[64])
                        std::string t = unhex(v);
                        char buf[64];
                        std::memset(buf, 'Z', sizeof buf);
                        std::memcpy(buf, t.c_str(), std::min<std::size_t>(t.size(), 63) + 1);
                        buf[63] = 0;
                        const char(&cbuf)[64] = buf;
                        if (k == 'b')
                            fm % buf;
                        else
                            fm % cbuf;
                    }
                    else if (k == 'u')
                        fm % std::strtoull(v.c_str(), nullptr, 10);
                    else if (k == 't')
                        fm % (v == "1");
                    else if (k == 'f')
                        fm % static_cast<float>(std::atof(v.c_str()));
                    else if (k == 'v')
                    {
                        std::string t = unhex(v);
                        fm % std::string_view(t);
                    }
                    else if (k == 'S')
                    {
                        const std::string t = unhex(v);
                        fm % t;
                    }
                    else if (k == 'h')
                        fm % static_cast<short>(std::atoi(v.c_str()));
                    else if (k == 'y')
                        fm % static_cast<unsigned char>(std::atoi(v.c_str()));
                };
                if (how == "%")
                {
                    for (std::size_t i = 0; i < n; ++i)
                        feed(f, w[3 + i]);
                }
                else
                {
                    // args(...) with strings only (arity dispatch)
                    std::vector<std::string> a;
                    for (std::size_t i = 0; i < n; ++i)
                        a.push_back(unhex(w[3 + i].substr(2)));
                    switch (n)
                    {
                    case 0:
                        f.args();
                        break;
                    case 1:
                        f.args(a[0]);
                        break;
                    case 2:
                        f.args(a[0], a[1]);
                        break;
                    case 3:
                        f.args(a[0], a[1], a[2]);
                        break;
                    case 4:
                        f.args(a[0], a[1], a[2], a[3]);
                        break;
                    case 5:
                        f.args(a[0], a[1], a[2], a[3], a[4]);
                        break;
                    default:
                        f.args(a[0], a[1], a[2], a[3], a[4], a[5]);
                        break;
                    }
                }
                // three observation routes
                std::string r1, r2, r3, e1, e2, e3;
                try
                {
                    r1 = f.str();
                }
                catch (std::exception& e)
                {
                    e1 = exname(e);
                }
                try
                {
                    std::string conv = f;
                    r2 = conv;
                }
                catch (std::exception& e)
                {
                    e2 = exname(e);
                }
                try
                {
                    std::stringstream ss;
                    ss << f;
                    r3 = ss.str();
                }
                catch (std::exception& e)
                {
                    e3 = exname(e);
                }
                out("F " + (e1.empty() ? "ok:" + hex(r1) : "!" + e1) + " " + (e2.empty() ? "ok:" + hex(r2) : "!" + e2) +
                    " " + (e3.empty() ? "ok:" + hex(r3) : "!" + e3));
            }
            else if (c == "FMTL")
            {
                // FMTL <idx> <s:arg>... : formats written with the _nf user-defined literal
                int idx = std::atoi(w[1].c_str());
                auto feed = [&](auto f) {
                    for (std::size_t i = 2; i < w.size(); ++i)
                        f % unhex(w[i].substr(2));
                    return f.str();
                };
                std::string r;
                switch (idx)
                {
                case 0:
                    r = feed("{}"_nf);
                    break;
                case 1:
                    r = feed("a{}b{}"_nf);
                    break;
                case 2:
                    r = feed("{{}}"_nf);
                    break;
                case 3:
                    r = feed(""_nf);
                    break;
                default:
                    r = feed("{} {}{} }{"_nf);
                    break;
                }
                out("F ok:" + hex(r) + " ok:" + hex(r) + " ok:" + hex(r));
            }
            else if (c == "RAISE")
            {
                // RAISE <n|c> <kind:value>... : message of a raised library exception (0..6 arguments)
                std::size_t n = w.size() - 2;
                std::string got, ty;
                auto arg = [&](std::size_t i) { return unhex(w[2 + i].substr(2)); };
                auto num = [&](std::size_t i) { return std::atoi(w[2 + i].substr(2).c_str()); };
                bool custom = w[1] == "c";
                try
                {
                    // argument kinds are fixed per arity: the script generator knows the table
                    switch (n)
                    {
                    case 0:
                        // at least one argument is required by the library
                        got = "";
                        throw nitro::except::exception("");
                    case 1:
                        if (custom)
                            nitro::raise<custom_exception>(arg(0));
                        nitro::raise(arg(0));
                    case 2:
                        if (custom)
                            nitro::raise<custom_exception>(arg(0), num(1));
                        nitro::raise(arg(0), num(1));
                    case 3:
                        nitro::raise(arg(0), num(1), arg(2));
                    case 4:
                        nitro::raise(num(0), arg(1), arg(2), 'x');
                    case 5:
                        nitro::raise(arg(0), arg(1), num(2), 2.5, arg(4));
                    default:
                        nitro::raise(arg(0), num(1), arg(2), num(3), arg(4), arg(5));
                    }
                }
                catch (custom_exception& e)
                {
                    got = e.what();
                    ty = "custom";
                }
                catch (nitro::except::exception& e)
                {
                    got = e.what();
                    ty = "nitro";
                }
                out("X " + ty + " " + hex(got));
            }
            else if (c == "RAISEB")
            {
                // RAISEB <s:text> <i:number> <s:text2>: character buffers larger than their text as arguments
                std::string got;
                std::string t1 = unhex(w[1].substr(2)), t2 = unhex(w[3].substr(2));
                int num = std::atoi(w[2].substr(2).c_str());
                char b1[32], b2[16];
                std::memset(b1, 'Z', sizeof b1);
                std::memset(b2, 'Z', sizeof b2);
                std::memcpy(b1, t1.c_str(), std::min<std::size_t>(t1.size(), 31) + 1);
                std::memcpy(b2, t2.c_str(), std::min<std::size_t>(t2.size(), 15) + 1);
                b1[31] = 0;
                b2[15] = 0;
                const char(&c1)[32] = b1;
                try
                {
                    nitro::raise(c1, num, b2, static_cast<const char*>(b1));
                }
                catch (nitro::except::exception& e)
                {
                    got = e.what();
                }
                out("X nitro " + hex(got));
            }
            else if (c == "RAISEM")
            {
                // RAISEM <s:text> <i:number> <hex|bool|prec>: an argument list with a stream manipulator
                std::string got;
                std::string text = unhex(w[1].substr(2));
                int num = std::atoi(w[2].substr(2).c_str());
                try
                {
                    if (w[3] == "hex")
                        nitro::raise(text, std::hex, num);
                    else if (w[3] == "bool")
                        nitro::raise(text, std::boolalpha, num != 0);
                    else
                        nitro::raise(text, std::setprecision(3), num / 7.0);
                }
                catch (nitro::except::exception& e)
                {
                    got = e.what();
                }
                out("X nitro " + hex(got));
            }
            else if (c == "RAISEF")
            {
                // RAISEF <format> <s:arg>... : passing a format object to raise
                auto f = nitro::format(unhex(w[1]));
                for (std::size_t i = 2; i < w.size(); ++i)
                    f % unhex(w[i].substr(2));
                std::string got;
                try
                {
                    nitro::raise(f);
                }
                catch (nitro::except::exception& e)
                {
                    got = std::string("nitro ") + hex(e.what());
                }
                catch (std::exception& e)
                {
                    got = "!" + exname(e);
                }
                out("X " + got);
            }
            else if (c == "RAISEFT")
            {
                // RAISEFT <format> <s:tail> <i:number> <s:arg>...: a format object FIRST, further message parts behind
                // it (lvalue and temporary format objects, nitro::raise and raise<custom_exception>)
                auto f = nitro::format(unhex(w[1]));
                std::string tail = unhex(w[2].substr(2));
                int num = std::atoi(w[3].substr(2).c_str());
                for (std::size_t i = 4; i < w.size(); ++i)
                    f % unhex(w[i].substr(2));
                std::string got1, got2, got3;
                auto run = [&](auto&& thrower) {
                    try
                    {
                        thrower();
                    }
                    catch (nitro::except::exception& e)
                    {
                        return std::string(e.what());
                    }
                    catch (std::exception& e)
                    {
                        return "!" + exname(e);
                    }
                    return std::string("!nothing-raised");
                };
                got1 = run([&] { nitro::raise(f, tail, num); });
                got2 = run([&] { nitro::raise<custom_exception>(nitro::detail::formatter<char>(f), tail, num); });
                got3 = run([&] { nitro::raise(num, f, tail); });
                out("X nitro " + hex(got1) + " " + hex(got2) + " " + hex(got3));
            }
            else if (c == "JOINP")
            {
                // JOINP <infix> <elems...>: the elements as const char* and as std::string_view (types that can render
                // as empty text without being std::string)
                std::string infix = unhex(w[1]);
                std::vector<std::string> keep;
                for (std::size_t i = 2; i < w.size(); ++i)
                    keep.push_back(unhex(w[i]));
                std::vector<const char*> vp;
#ifndef STRDRV_JOIN_RANDOM_ACCESS_ONLY
                std::list<std::string_view> vv;
#else
                std::vector<std::string_view> vv;
#endif
                for (auto& k : keep)
                {
                    vp.push_back(k.c_str());
                    vv.emplace_back(k);
                }
                out("J ok " + hex(nitro::lang::join(vp.begin(), vp.end(), infix)) + " " +
                    hex(nitro::lang::join(vv.begin(), vv.end(), infix)));
            }
            else
            {
                std::fprintf(stderr, "driver: unknown command '%s'\n", c.c_str());
                return 98;
            }
        }
        catch (std::exception& e)
        {
            if (c == "FMTL")
                out("F !" + exname(e) + " !" + exname(e) + " !" + exname(e));
            else
                out(std::string(1, c[0]) + " !" + exname(e));
        }
    }
    std::fflush(stdout);
    return 0;
}
