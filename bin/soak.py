#!/usr/bin/env python3
"""Development tool: runs checks over several VERIF_SEED values and reports anything that is not
a silent HELD.   bin/soak.py quick 1 2 3 4 5 [-- C01 C02 ...]"""
import os
import subprocess
import sys
import time

VERIF = os.path.dirname(os.path.dirname(os.path.abspath(__file__)))
args = sys.argv[1:]
tier = args[0]
if "--" in args:
    k = args.index("--")
    seeds, props = args[1:k], args[k + 1:]
else:
    seeds, props = args[1:], ["C%02d" % i for i in range(1, 21)]
bad = 0
for seed in seeds:
    t0 = time.time()
    for p in props:
        env = dict(os.environ, VERIF_SEED=str(seed))
        t = time.time()
        r = subprocess.run([os.path.join(VERIF, "bin", "check"), p, tier], capture_output=True, text=True, env=env, cwd=VERIF)
        last = (r.stdout.strip().split("\n") or [""])[-1]
        flag = "" if (r.returncode == 0 and "VIOLATION" not in r.stdout and "KNOWN-FINDING" not in r.stdout) else "  <<<<<< NOT SILENT"
        if flag:
            bad += 1
            print(r.stdout[-1500:])
        print("seed=%s %s exit=%d %.0fs %s%s" % (seed, p, r.returncode, time.time() - t, last[:110], flag), flush=True)
    print("seed %s done in %.0fs" % (seed, time.time() - t0), flush=True)
print("NOT SILENT: %d" % bad)
