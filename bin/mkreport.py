#!/usr/bin/env python3
"""Development tool: regenerates the validation tables of DESIGN.md (section 7.5 / 7.6) from
seeded/*/meta.json and mutants/results.json."""
import json
import os
import re
import sys

VERIF = os.path.dirname(os.path.dirname(os.path.abspath(__file__)))


def seeded_table():
    rows = ["| seeded change | property | what it does (author's summary, shortened) | needs to manifest | detected by (quick tier) |",
            "|---|---|---|---|---|"]
    for d in sorted(os.listdir(os.path.join(VERIF, "seeded"))):
        mp = os.path.join(VERIF, "seeded", d, "meta.json")
        if not os.path.exists(mp):
            continue
        m = json.load(open(mp))
        cw = m.get("checked_with", {})
        det = []
        for c, v in sorted(cw.get("results", {}).items()):
            if v["exit"] == 1:
                det.append("%s: `%s`" % (c, v["violation_keys"][0] if v["violation_keys"] else "?"))
        summ = re.sub(r"\s+", " ", m.get("summary", ""))[:170].replace("|", "/")
        need = re.sub(r"\s+", " ", m.get("needs_to_manifest", ""))[:150].replace("|", "/")
        rows.append("| %s | %s | %s | %s | %s |" % (d, m["property"], summ, need, "; ".join(det) or "**not detected**"))
    return "\n".join(rows)


def mutant_table():
    p = os.path.join(VERIF, "mutants", "results.json")
    if not os.path.exists(p):
        return "(no results recorded)"
    res = json.load(open(p))
    rows = ["| mutant | expected | fired |", "|---|---|---|"]
    caught = 0
    for r in res:
        fired = [c for c, v in r["checks"].items() if v["exit"] == 1]
        ok = bool(fired) if r.get("expected") else True
        caught += 1 if fired else 0
        rows.append("| %s | %s | %s |" % (r["name"].replace("spec/", ""), ", ".join(r.get("expected") or []) or "(equivalent)",
                                         ", ".join(fired) or ("-" if not r.get("expected") else "**none**")))
    rows.append("")
    rows.append("%d of %d mutants are caught by at least one check." % (caught, len(res)))
    return "\n".join(rows)


def main():
    p = os.path.join(VERIF, "DESIGN.md")
    s = open(p).read()
    a = s.index("### 7.5 ")
    b = s.index("## 8. Measured cost")
    body = ("### 7.5 Seeded changes from independent sub-agents (ten waves of 20, 200 changes)\n\n"
            "Every change below compiles, leaves the repository suite at its baseline, and comes with a demonstration that "
            "passes without and fails with it (`seeded/<name>/`). Waves 2-5 were told what the earlier waves had done "
            "and asked for a different mechanism in a different clause of the property (themes: section 7.4).\n\n" + seeded_table() +
            "\n\n### 7.6 Hand-written mutants (`mutants/specs.py`)\n\n" + mutant_table() + "\n\n\n")
    open(p, "w").write(s[:a] + body + s[b:])


if __name__ == "__main__":
    main()
