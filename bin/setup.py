#!/usr/bin/env python3
"""MANIFEST.setup_cmd: builds every harness the quick tier needs (offline, from files on disk)
so that the first quick run of each check starts with a warm cache.  Checks rebuild anything
whose inputs changed anyway (content-hash keyed), so this is an optimisation only."""
import os
import sys
import time
from concurrent.futures import ThreadPoolExecutor

VERIF = os.path.dirname(os.path.dirname(os.path.abspath(__file__)))
sys.path.insert(0, os.path.join(VERIF, "lib"))
sys.path.insert(0, os.path.join(VERIF, "checks"))

import build  # noqa: E402


def main():
    t = time.time()
    jobs = [
        lambda: build.build_exe("gasan", ["optdrv.cpp"], build.OPTIONS_SRCS),
        lambda: build.build_exe("gasan", ["fvmodel.cpp"]),
        lambda: build.build_exe("gasan", ["fv_insert_lvalue_probe.cpp"]),
        lambda: build.build_exe("gasan", ["strdrv.cpp"]),
        lambda: build.build_exe("gasan", ["ownhist.cpp"]),
        lambda: build.build_exe("gasan", ["hashgrid.cpp"]),
        lambda: build.build_exe("gasan", ["iteradapt.cpp"]),
        lambda: build.build_exe("plain", ["mtlog.cpp"]),
        lambda: build.build_exe("gtsan", ["mtlog.cpp"]),
        lambda: build.build_exe("gtsan", ["mtindep.cpp"], build.OPTIONS_SRCS, link=["-ldl"]),
        lambda: build.build_exe("plain", ["mtindep.cpp"], build.OPTIONS_SRCS, link=["-ldl"]),
    ]
    import c19
    jobs.append(c19._build)
    ok = True
    with ThreadPoolExecutor(max_workers=8) as ex:
        for f in [ex.submit(j) for j in jobs]:
            try:
                f.result()
            except build.BuildError as e:
                ok = False
                print("setup: a harness did not build (the check will report it):\n%s" % str(e)[-1500:])
    # the generated logging programs of the quick tier
    try:
        import logrun
        import verdict
        n = 2
        logrun.run_programs([verdict.seed() * 1000 + i for i in range(n)])
    except Exception as e:  # never fail the setup because of a warm-up
        print("setup: log program warm-up skipped: %s" % e)
    build.prune()
    print("setup done in %.1fs (%s)" % (time.time() - t, "all harnesses built" if ok else "with build failures"))
    return 0


if __name__ == "__main__":
    sys.exit(main())
