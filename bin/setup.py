#!/usr/bin/env python3
"""MANIFEST.setup_cmd: builds every harness the quick tier needs (offline, from files on disk)
so that the first quick run of each check starts with a warm cache.  Checks rebuild anything
whose inputs changed anyway (content-hash keyed), so this is an optimisation only."""
import os
import sys
import time
from concurrent.futures import ThreadPoolExecutor

VERIF = os.path.dirname(os.path.dirname(os.path.abspath(__file__)))
sys.path.insert(0, os.path.join(VERIF, "lib"))
sys.path.insert(0, os.path.join(VERIF, "checks"))

import build  # noqa: E402
import batchrun  # noqa: E402
import mtindep  # noqa: E402
import optrun  # noqa: E402


def main():
    t = time.time()
    LINK_DL = ["-ldl"]
    jobs = []
    for tag in ("gasan", "plain", "casan"):
        jobs.append(lambda tag=tag: optrun.optdrv(tag))
        jobs.append(lambda tag=tag: build.build_exe(tag, ["fvmodel.cpp"]))
        jobs.append(lambda tag=tag: batchrun.strdrv(tag))
        jobs.append(lambda tag=tag: build.build_exe(tag, ["ownhist.cpp"]))
        jobs.append(lambda tag=tag: build.build_exe(tag, ["hashgrid.cpp"]))
        jobs.append(lambda tag=tag: build.build_exe(tag, ["iteradapt.cpp"]))
    jobs.append(lambda: build.build_exe("gasan", ["fv_insert_lvalue_probe.cpp"]))
    for tag in ("plain", "gtsan", "cplain", "ctsan"):
        jobs.append(lambda tag=tag: build.build_exe(tag, ["mtlog.cpp"]))
    for tag in ("gtsan", "plain", "gasan"):
        jobs.append(lambda tag=tag: mtindep._exe(tag))
    jobs.append(lambda: build.build_exe("plain", ["envdl.cpp"], ["src/env/get.cpp"],
                                        link=["-Wl,--wrap=dlopen,--wrap=dlclose,--wrap=dlsym,--wrap=dlerror", "-rdynamic", "-ldl"]))
    import c19
    jobs.append(c19._build)
    ok = True
    with ThreadPoolExecutor(max_workers=16) as ex:
        for f in [ex.submit(j) for j in jobs]:
            try:
                f.result()
            except build.BuildError as e:
                ok = False
                print("setup: a harness did not build (the check will report it):\n%s" % str(e)[-1500:])
    # the generated logging programs of the quick tier
    try:
        import logrun
        import verdict
        n = 2
        seeds = [verdict.seed() * 1000 + i for i in range(n)]
        logrun.run_programs(seeds)
        logrun.run_programs(seeds[:1], tag="casan", minima=[0, 2, 5])
        logrun.run_programs(seeds[:1], tag="plain", minima=[0, 3])
    except Exception as e:  # never fail the setup because of a warm-up
        print("setup: log program warm-up skipped: %s" % e)
    build.prune()
    print("setup done in %.1fs (%s)" % (time.time() - t, "all harnesses built" if ok else "with build failures"))
    return 0


if __name__ == "__main__":
    sys.exit(main())
