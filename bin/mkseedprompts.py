#!/usr/bin/env python3
"""Development tool: creates the scratch worktrees /tmp/seed<W>_CNN and the prompt given to the
independent sub-agent of wave W (the agents see the property text and their worktree, nothing of
/verif).  Usage: bin/mkseedprompts.py <wave> <theme>   (themes: see THEMES)"""
import json
import os
import subprocess
import sys

VERIF = os.path.dirname(os.path.dirname(os.path.abspath(__file__)))

THEMES = {
    "scale": """the breakage is a genuine, demonstrable violation of the property as stated, but is SCALE- or COUNT-DEPENDENT: it must only manifest beyond some threshold that small tests never reach - for example a string longer than the small-string buffer (16+ / 23+ characters) or longer than 255 / 4095 bytes, more than 8 / 16 / 32 / 64 elements, options, groups, positionals, letters in a bundle, arguments, sinks, threads or records, a capacity of 17 or 65 or 1025, the 10th / 100th / 257th call on the same object, a counter that wraps, a container that rehashes or reallocates, a fixed-size internal buffer or bitset, a recursion depth, a numeric value beyond 2^15 / 2^31. Below the threshold behaviour must be exactly as before. Typical natural-looking sources: small fixed-size buffers or arrays "for the common case", narrowed integer types (uint8_t / short / int for a count or index), small-buffer or small-size fast paths, chunked processing with a wrong remainder, caches with a bounded size, reserve()/capacity heuristics.""",
    "history": """the breakage is a genuine, demonstrable violation of the property as stated, but is HISTORY- or PROCESS-STATE-DEPENDENT: the first use in a process (and everything the small tests do) behaves exactly as before, while hidden state that outlives a call or an object makes a LATER use wrong. Examples of natural-looking sources: a static or thread_local scratch buffer / stream / container reused across calls "to save allocations"; memoisation keyed by object address (stale once that object is destroyed and another one is created at the same address) or by content; a lazily initialised table or flag that is initialised from the FIRST caller's arguments; a process-wide counter; state left behind by an operation that ended with an exception; an order dependence between two objects of the same type (the second parser / logger / container / format object created in a process); interference between INDEPENDENT objects used by two threads at the same time (no object is shared between the threads). One object used once on one thread must behave exactly as before.""",
    "types": """the breakage is a genuine, demonstrable violation of the property as stated, but is TYPE- or INSTANTIATION-DEPENDENT: the library is mostly templates and overload sets; your change must leave the behaviour for the types and overloads that the small tests use exactly as before and break the property only for ANOTHER legitimate instantiation or overload. Examples: unsigned vs signed or 64-bit vs 32-bit integers, float / long double vs double, bool, char vs signed char / unsigned char, wchar_t, std::string vs const char* vs string literals (arrays), const vs non-const objects, lvalue vs rvalue (temporary) arguments, move-only / non-default-constructible / over-aligned / throwing element types, empty tuples, single-element tuples, nested tuples, std::variant with repeated or many alternatives, containers with proxy references (std::vector<bool>) or without random access (std::list, std::forward_list, std::set, std::map), std::array / std::string / std::string_view as ranges, user-defined range types (only begin()/end(), sentinel-free), a logger with a different record attribute set / formatter / sink / filter type, another exception type in raise<>, the std::vector<user_input> overload of parse vs parse(argc, argv), typed access as<T>() for a T the tests never use. Natural-looking sources: a convenience overload or a specialisation "for the common type", a static_cast or a narrowing through an intermediate type, SFINAE / if constexpr conditions that classify a type wrongly (is_integral, is_trivially_copyable, is_same after decay), taking a parameter by value instead of by reference, std::move of something that may be an lvalue, a const overload that forwards to the wrong function.""",
    "surface": """the breakage is a genuine, demonstrable violation of the property as stated, but it is reachable only through a PUBLIC ENTRY POINT, ACCESSOR OR SPELLING THAT IS RARELY USED: first list the complete public surface through which a user can exercise this property (every public member function and free function incl. const / rvalue-qualified twins, default arguments vs explicit arguments, operators vs named functions, iterator flavours begin/cbegin/rbegin/crbegin, data()/front()/back(), std::get / tuple-like access, user-defined literals, convenience wrappers and aliases, the less common sink / filter / attribute / formatter classes of the logging library, configuration functions such as set_severity with a string, count()/get(name, i)/get_all()/has()/provided() style accessor families, group-level vs parser-level calls, copy vs move of result objects), then pick an entry point that the existing tests never call and a typical quick check would be least likely to drive, and make your change there. The commonly used entry points must behave exactly as before.""",
    "indeterminate": """the breakage is a genuine, demonstrable violation of the property as stated, but it comes from reliance on an INDETERMINATE or UNSPECIFIED value rather than from wrong logic, so that typical debug / sanitizer runs of small tests look fine: e.g. a new data member or local that is left uninitialised on one construction / control-flow path (a second constructor, a move constructor, a default member initialiser forgotten, an early return), a result that depends on the padding bytes of a struct (memcmp / hashing the object representation), on evaluation order of function arguments or operands, on the iteration order of an unordered container or the numeric value of a pointer (sorting or hashing by address, ASLR), on reading an object after it was moved from, on a dangling reference or string_view / c_str() to a temporary that usually still holds the old bytes, on signed/unsigned char differences, on integer promotion or overflow that only shows for extreme values, on an iterator that was invalidated by a reallocation that usually does not happen. The bug should be real for users (wrong results on some compilers, optimisation levels, allocator states or inputs) yet leave the existing tests passing on this machine.""",
    "threads": """the breakage is a genuine, demonstrable violation of the property as stated, but it needs MORE THAN ONE THREAD to manifest: every single-threaded use, and everything the small tests do, behaves exactly as before. The threads may work on completely independent objects (their own parser, format object, strings, containers, loggers writing to their own sinks, library handles) or, where the property is about shared use (thread-safe sinks), on the shared one. Natural-looking sources: a function-local or namespace-scope static used as scratch space or cache "because construction is expensive", lazy one-time initialisation without synchronisation (or with a hand-written double-checked flag), a process-wide registry or counter, thread_local state that is handed from one thread to another, a lock taken too late / released too early / taken on only one of two paths, reliance on errno-like global state (dlerror, getenv, locale, std::cout flags) between two calls, a reference-count or ownership transfer that is not atomic, publication of a partly constructed object. The demo must show the violation with plain builds on a multi-core machine within a few seconds (and may additionally show a ThreadSanitizer report).""",
}


def main():
    wave, theme = int(sys.argv[1]), sys.argv[2]
    props = {}
    for l in open(os.path.join(VERIF, "properties.jsonl")):
        q = json.loads(l)
        props[q["id"]] = q
    for i in range(1, 21):
        pid = "C%02d" % i
        wt = "/tmp/seed%d_%s" % (wave, pid)
        subprocess.run(["git", "-C", "/repo", "worktree", "add", "--detach", wt, "HEAD"], capture_output=True)
        os.makedirs(wt + "/seed", exist_ok=True)
        p = props[pid]
        prop = "Property %s: %s\n\nStatement: %s\n\nHolds: %s\n\nRelevant source files: %s\n" % (
            pid, p["title"], p["statement"], p["quantifier"]["text"], ", ".join(p["anchors"]["files"]))
        taken = []
        for w in range(1, wave):
            f = os.path.join(VERIF, "seeded", "%s-agent%d" % (pid.lower(), w), "meta.json")
            if os.path.exists(f):
                taken.append(json.load(open(f)).get("summary", "")[:300])
        others = "\n".join("   (%d) %s" % (k + 1, t) for k, t in enumerate(taken))
        prompt = f"""You are helping to test a verification harness by producing ONE realistic regression ("seeded change") for a C++ library.

Work ONLY inside your own scratch git worktree {wt} (a checkout of the header-mostly C++ library tud-zih-energy/nitro). Do NOT read, list or touch /verif, /repo, or any other directory under /tmp; everything you need is in your worktree.

The library is supposed to satisfy this property (also saved as seed/PROPERTY.txt in your worktree):

{prop}
YOUR TASK: make a small, realistic change to the library sources (under include/ or src/ only, never tests/) that BREAKS this property, such that
 (a) everything still compiles (library, tests),
 (b) the existing test suite behaves exactly as before. Baseline: every test passes except Nitro.dl_test, which already fails on the untouched tree. Build and run it with:
       cmake -G Ninja -S . -B _build && cmake --build _build && ctest --test-dir _build -j8
 (c) {THEMES[theme]}

{len(taken)} other engineers have ALREADY delivered the changes below for this property; yours must differ from all of them in function and in trigger:
{others}

DELIVERABLES (all inside {wt}/seed/):
 1. patch.diff - produced with `git diff -- include src > seed/patch.diff` after you made your edits in the working tree (leave the edits in place, uncommitted).
 2. demo.cpp (plus demo.sh if you need special build flags) - a small self-contained program that exits 0 / prints PASS on the UNMODIFIED library and exits non-zero / prints FAIL with your change applied. Typical build: g++ -std=c++17 -I include seed/demo.cpp [src/options/*.cpp src/env/get.cpp] -pthread -o seed/demo . (If the property is about sanitizer-visible behaviour you may build the demo with -fsanitize=address or -fsanitize=thread and say so in demo.sh.)
 3. meta.json - {{"property": "{pid}", "summary": "<what the change does>", "needs_to_manifest": "<the history / state / schedule it needs>", "files_changed": [...], "demo_build_cmd": "...", "demo_result_without_change": "...", "demo_result_with_change": "...", "suite_result_with_change": "..."}}

You MUST verify all of it yourself: run the suite with your change (baseline must be unchanged), and run the demo both without the change (`git apply -R seed/patch.diff`, then re-apply) and with it.
Notes: some files under src/options are ISO-8859-1 encoded (a non-ASCII byte in the licence header): edit them byte-preservingly (sed, or python reading/writing bytes), do not re-encode them. Keep the change small (ideally under 25 changed lines). Do not delete the worktree; do not commit.

Finish with a short report: what you changed, why the existing tests still pass, what exactly triggers the bug, and the demo results with/without the change."""
        open(wt + "/seed/PROMPT.txt", "w").write(prompt)
        open(wt + "/seed/PROPERTY.txt", "w").write(prop)
    print("ok")


if __name__ == "__main__":
    main()
