#!/usr/bin/env python3
"""Development tool: independently confirms a seeded change produced by a sub-agent in its scratch
worktree /tmp/seed_<ID>: in a FRESH scratch worktree of /repo the patch must apply, the repository
suite must stay at its baseline, and the demonstration must pass without and fail with the change.
On success the change is stored as /verif/seeded/<name>/ (patch.diff, demo, meta.json).
  bin/confirm_seed.py C01 [name]"""
import json
import os
import shutil
import subprocess
import sys

VERIF = os.path.dirname(os.path.dirname(os.path.abspath(__file__)))


def sh(cmd, cwd=None, timeout=1800):
    p = subprocess.run(cmd, shell=True, cwd=cwd, capture_output=True, text=True, errors="replace", timeout=timeout)
    return p.returncode, (p.stdout + p.stderr)


def main():
    pid = sys.argv[1]
    name = sys.argv[2] if len(sys.argv) > 2 else pid.lower() + "-agent1"
    src = sys.argv[3] if len(sys.argv) > 3 else "/tmp/seed_%s/seed" % pid
    wt = "/tmp/confirm_%s" % name
    sh("git -C /repo worktree remove --force %s" % wt)
    rc, out = sh("git -C /repo worktree add --detach %s HEAD" % wt)
    assert rc == 0, out
    try:
        shutil.copytree(src, os.path.join(wt, "seed"))
        meta = json.load(open(os.path.join(src, "meta.json")))
        demo_cmd = meta.get("demo_build_cmd") or ""
        if os.path.exists(os.path.join(src, "demo.sh")):
            run_demo = "bash seed/demo.sh"
        else:
            if "&&" in demo_cmd:
                demo_cmd = demo_cmd.split("&&")[0]
            run_demo = demo_cmd + " && ./seed/demo"
        report = {"name": name, "property": pid}
        rc, out = sh(run_demo, cwd=wt)
        report["demo_without_change"] = {"exit": rc, "tail": out[-300:]}
        rc, out = sh("git apply seed/patch.diff", cwd=wt)
        assert rc == 0, "patch does not apply: " + out
        rc, out = sh("git diff --stat", cwd=wt)
        report["diffstat"] = out.strip().split("\n")[-1]
        rc, out = sh(run_demo, cwd=wt)
        report["demo_with_change"] = {"exit": rc, "tail": out[-500:]}
        rc, out = sh("cmake -G Ninja -S . -B _build >/dev/null 2>&1 && cmake --build _build 2>&1 | tail -2 && "
                     "ctest --test-dir _build -j8 2>&1 | grep -E 'tests passed|^\\s+[0-9]+ - '", cwd=wt)
        report["suite_with_change"] = out.strip()[-300:]
        baseline = "93% tests passed, 1 tests failed out of 15" in out and "Nitro.dl_test" in out and \
            out.count(" - Nitro.") == 1
        ok = report["demo_without_change"]["exit"] == 0 and report["demo_with_change"]["exit"] != 0 and baseline
        report["confirmed"] = ok
        print(json.dumps(report, indent=1))
        if ok:
            dst = os.path.join(VERIF, "seeded", name)
            shutil.rmtree(dst, ignore_errors=True)
            os.makedirs(dst)
            for f in os.listdir(src):
                if f in ("patch.diff", "demo.cpp", "demo.sh", "PROPERTY.txt") or f.endswith((".cpp", ".sh", ".hpp")):
                    shutil.copy(os.path.join(src, f), dst)
            meta["property"] = pid
            meta["confirmed_by"] = ("fresh scratch worktree of /repo HEAD: patch applies; repository suite at baseline "
                                    "(only Nitro.dl_test fails); demo exit 0 without the change, exit %d with it" %
                                    report["demo_with_change"]["exit"])
            meta["produced_by"] = "independent sub-agent given only the property text and its own scratch worktree"
            with open(os.path.join(dst, "meta.json"), "w") as fh:
                json.dump(meta, fh, indent=1)
    finally:
        sh("git -C /repo worktree remove --force %s" % wt)
    return 0


if __name__ == "__main__":
    sys.exit(main())
