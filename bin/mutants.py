#!/usr/bin/env python3
"""Development tool (not a registered check): applies a change to /repo's working tree, runs the
quick tier of the named checks, reports which of them fire, and undoes the change straight
afterwards (git -C /repo checkout -- .).

  bin/mutants.py revert-fixes            every `fix:` commit of /repo reverted, one at a time
  bin/mutants.py seeded [id ...]         every /verif/seeded/<id>/patch.diff
  bin/mutants.py patch FILE C01 C04 ...  one patch against the listed checks
  options: --suite  also run the repository's own suite with the change (must stay at baseline)
"""
import json
import os
import re
import subprocess
import sys
import time

VERIF = os.path.dirname(os.path.dirname(os.path.abspath(__file__)))
REPO = "/repo"
ALL = ["C%02d" % i for i in range(1, 21)]


def sh(cmd, **kw):
    return subprocess.run(cmd, shell=isinstance(cmd, str), capture_output=True, text=True, errors="replace", **kw)


def clean():
    sh(["git", "-C", REPO, "checkout", "--", "."])
    st = sh(["git", "-C", REPO, "status", "--porcelain", "--untracked-files=no"]).stdout.strip()
    assert st == "", "repo not clean: " + st


def run_check(prop, tier="quick", seed=None):
    env = dict(os.environ)
    if seed is not None:
        env["VERIF_SEED"] = str(seed)
    t = time.time()
    p = sh([os.path.join(VERIF, "bin", "check"), prop, tier], env=env, cwd=VERIF)
    keys = re.findall(r"^  key=(\S+)", p.stdout, re.M)
    return p.returncode, keys, time.time() - t, p.stdout


def suite():
    b = sh("cmake --build /repo/_build 2>&1 | tail -3")
    if "FAILED" in b.stdout or "error" in b.stdout.lower():
        return "build-failed: " + b.stdout[-300:]
    t = sh("ctest --test-dir /repo/_build -j8 2>&1 | grep -E 'tests passed|Failed|\\*\\*\\*'")
    failed = re.findall(r"- (\S+) \(", sh("ctest --test-dir /repo/_build -j8 2>&1 | grep -E '^\\s+[0-9]+ - '").stdout)
    return "baseline" if failed == ["Nitro.dl_test"] else "suite-differs: %s" % failed


def try_change(name, apply_cmd, checks, with_suite=False, undo_build=True):
    clean()
    a = sh(apply_cmd, cwd=REPO)
    if a.returncode != 0:
        print("%-40s APPLY FAILED: %s" % (name, (a.stdout + a.stderr)[-300:]))
        clean()
        return None
    result = {"name": name, "checks": {}}
    try:
        if with_suite:
            result["suite"] = suite()
        for c in checks:
            rc, keys, dt, out = run_check(c)
            result["checks"][c] = {"exit": rc, "keys": keys[:6], "wall_s": round(dt, 1)}
    finally:
        clean()
        if with_suite and undo_build:
            sh("cmake --build /repo/_build 2>&1 | tail -1")
    fired = [c for c, r in result["checks"].items() if r["exit"] == 1]
    incon = [c for c, r in result["checks"].items() if r["exit"] == 2]
    print("%-44s fired=%s%s%s" % (name, fired, " inconclusive=%s" % incon if incon else "",
                                    " suite=%s" % result.get("suite") if with_suite else ""))
    for c in fired:
        print("      %s: %s" % (c, ", ".join(result["checks"][c]["keys"][:4])))
    sys.stdout.flush()
    return result


FIX_TARGETS = {
    "lang::optional": ["C18", "C14"],
    "prepare()": ["C14"],
    "bundled": ["C01", "C04"],
    "environment values": ["C03", "C04"],
    "validate only the name": ["C02", "C04"],
    "after the first '--'": ["C12", "C04"],
    "moved parser": ["C13"],
    "usage()": ["C15"],
    "at(size())": ["C06"],
    "move construction": ["C06", "C07", "C20"],
    "assignment operators": ["C07"],
    "rbegin()": ["C06", "C07", "C20"],
    "insert(const T&)": ["C07"],
    "positional emplace": ["C06", "C07"],
    "std::get": ["C06"],
    "replace_all": ["C17"],
    "join": ["C17", "C15"],
}


def main():
    args = sys.argv[1:]
    with_suite = "--suite" in args
    args = [a for a in args if a != "--suite"]
    results = []
    if args[0] == "revert-fixes":
        log = sh(["git", "-C", REPO, "log", "--format=%h %s"]).stdout.strip().split("\n")
        for line in log:
            h, subj = line.split(" ", 1)
            if not subj.startswith("fix:"):
                continue
            checks = next((v for k, v in FIX_TARGETS.items() if k in subj), ALL)
            if len(args) > 1 and not any(a in subj or a == h for a in args[1:]):
                continue
            r = try_change("revert %s %s" % (h, subj[5:45]), "git show %s | git apply -R" % h, checks, with_suite)
            if r:
                results.append(r)
    elif args[0] == "seeded":
        ids = args[1:] or sorted(os.listdir(os.path.join(VERIF, "seeded")))
        for sid in ids:
            d = os.path.join(VERIF, "seeded", sid)
            if not os.path.exists(os.path.join(d, "patch.diff")):
                continue
            meta = json.load(open(os.path.join(d, "meta.json")))
            checks = meta.get("run_checks") or [meta["property"]]
            r = try_change("seeded/" + sid, ["git", "apply", os.path.join(d, "patch.diff")], checks, with_suite)
            if r:
                results.append(r)
                meta["checked_with"] = {"how": "git -C /repo apply seeded/%s/patch.diff; bin/check <ID> quick; "
                                               "git -C /repo checkout -- ." % sid,
                                        "results": {c: {"exit": v["exit"], "violation_keys": v["keys"]}
                                                    for c, v in r["checks"].items()},
                                        "detected": any(v["exit"] == 1 for v in r["checks"].values())}
                with open(os.path.join(d, "meta.json"), "w") as fh:
                    json.dump(meta, fh, indent=1)
    elif args[0] == "specs":
        sys.path.insert(0, os.path.join(VERIF, "mutants"))
        import specs
        want = args[1:]
        for name, f, old, new, checks in specs.SPECS:
            if want and not any(w in name for w in want):
                continue
            olds = old if isinstance(old, list) else [old]
            news = new if isinstance(new, list) else [new]
            edits = json.dumps([[f, o, n] for o, n in zip(olds, news)])
            cmd = [sys.executable, "-c",
                   "import json,sys\nfor f,o,n in json.loads(sys.argv[1]):\n d=open(f,'rb').read(); o=o.encode('latin-1'); "
                   "assert d.count(o)==1,(f,d.count(o)); open(f,'wb').write(d.replace(o,n.encode('latin-1')))", edits]
            r = try_change("spec/" + name, cmd, checks or ALL, with_suite)
            if r:
                r["expected"] = checks
                results.append(r)
        missed = [r["name"] for r in results if r["expected"] and
                  not any(r["checks"].get(c, {}).get("exit") == 1 for c in r["expected"])]
        print("\n%d mutants, not caught by an expected check: %s" % (len(results), missed))
    elif args[0] == "patch":
        r = try_change(os.path.basename(args[1]), ["git", "apply", os.path.abspath(args[1])], args[2:] or ALL, with_suite)
        if r:
            results.append(r)
    out = os.path.join(VERIF, ".build", "mutants-last.json")
    os.makedirs(os.path.dirname(out), exist_ok=True)
    with open(out, "w") as fh:
        json.dump(results, fh, indent=1)


if __name__ == "__main__":
    main()
