#!/usr/bin/env python3
"""Writes /verif/MANIFEST.json from the table below (single source of truth)."""
import json
import os

VERIF = os.path.dirname(os.path.dirname(os.path.abspath(__file__)))
ALL = ["C%02d" % i for i in range(1, 21)]

CHECKS = {
    "C01": dict(
        category="exploration",
        text="Accounting monitor over the real parser under gcc ASan+UBSan: whenever parse() accepts a vector, an "
             "independent reference model (lib/optmodel.py, written from the property text) must accept it too and "
             "every toggle count, option value, multi-option list and positional must equal the model's accounting. "
             "Exhaustive over one representative token per token/declaration relation class (incl. all bundles of "
             "length 2-3 over toggle/option/multi/undeclared letters) for 25 declarations up to vector length 1 "
             "(quick) / 2 (thorough, 8 declarations), seeded random with the token of interest at random positions "
             "beyond that. Every relation class must be hit or the run is inconclusive. A concurrent phase (harness/mtindep.cpp) repeats a fixed job list from 2-16 threads on thread-private objects: results must equal the serial ones and ThreadSanitizer must stay silent (hidden shared state).",
        design_ref="DESIGN.md section 4, C01",
        note="Trusts the Python model's reading of the property and the driver's rendering of the arguments object; "
             "bounded vector length; declarations from a fixed family plus random ones.",
        technique="reference-model runtime monitor (accounting of every token) under ASan/UBSan + ThreadSanitizer on concurrent independent use",
    ),
    "C02": dict(
        category="exploration",
        text="Round-trip monitor: a generator with inverse renders random assignments (hostile value pool: empty, "
             "blanks, '=', leading dashes, line breaks, bytes >= 0x80, 4 KiB) into argument vectors choosing long/"
             "short/'='/' ' forms, bundling, permutation and `--` placement; the parsed result must equal the "
             "assignment byte for byte, including provided flags and typed access on decimal texts. The oracle is "
             "the assignment itself, no parser model. Plus the exhaustive value-pool x 4-spellings product. A concurrent phase (harness/mtindep.cpp) repeats a fixed job list from 2-16 threads on thread-private objects: results must equal the serial ones and ThreadSanitizer must stay silent (hidden shared state).",
        design_ref="DESIGN.md section 4, C02",
        note="Sampled renderings (20k quick / 500k thorough); declarations without defaults and env so that only the "
             "spelling is under test; toggle names starting with 'no-' are excluded (D18).",
        technique="round-trip (render then parse) runtime monitoring under ASan/UBSan + ThreadSanitizer on concurrent independent use",
    ),
    "C03": dict(
        category="exploration",
        text="Exhaustive source matrix {given / not given / --no-} x {env unbound, unset, empty, string} x {default "
             "variants} x {optional, required} x 3 kinds, crossed with an environment content pool of option-like "
             "strings, '=', ';', blanks, non-ASCII, 4 KiB and the 30 toggle words; value, provided flag and "
             "accept/reject judged against the reference model in both directions. Thorough adds random env strings "
             "and several options sharing one variable. A concurrent phase (harness/mtindep.cpp) repeats a fixed job list from 2-16 threads on thread-private objects: results must equal the serial ones and ThreadSanitizer must stay silent (hidden shared state).",
        design_ref="DESIGN.md section 4, C03",
        note="Environment is set by the driver process itself with setenv (no NUL, no '=' in names). A trailing ';' "
             "in a multi-option value may or may not yield a trailing empty element (both accepted).",
        technique="reference-model runtime monitor over an exhaustive source matrix under ASan/UBSan + ThreadSanitizer on concurrent independent use",
    ),
    "C04": dict(
        category="exploration",
        text="Both directions of the accept/reject boundary against the reference model, the dynamic type of every "
             "escaping exception (must be parsing_error), ASan/UBSan/_GLIBCXX_ASSERTIONS and a CPU-time budget on every "
             "parse: enumerated malformed tokens at every position, tokens of up to 131071 bytes (bundles, names, "
             "values, dash runs), one-defect vectors for each of the 15 documented rejection conditions, random byte "
             "strings over a dash-heavy alphabet, hostile environments. Every rejection condition must be observed. "
             "Thorough adds clang ASan+UBSan, a libFuzzer campaign and a valgrind memcheck sample. A concurrent phase (harness/mtindep.cpp) repeats a fixed job list from 2-16 threads on thread-private objects: results must equal the serial ones and ThreadSanitizer must stay silent (hidden shared state).",
        design_ref="DESIGN.md section 4, C04",
        note="Sampled input space; hangs are decided on CPU time (re-run once before reporting); a clean sanitizer "
             "run is not memory safety.",
        technique="reference-model differential monitoring + sanitizers + coverage-guided fuzzing + ThreadSanitizer on concurrent independent use",
    ),
    "C05": dict(
        category="exploration", engine="loggen",
        text="Generated C++ programs observe the user-supplied formatter and sinks of the real logger: 3 logger types "
             "per program (sink::sequence of 1-3 recording sinks, filter TYPES from and/or/not over severity_filter "
             "leaves incl. double negation), 14 statements per logger in both syntactic forms, tagged and untagged, "
             "0-6 streamed items of 12 kinds, plus statements whose lifetimes overlap on one thread (a statement between the "
             "insertions of a named stream, two named streams alive at once, a lazily evaluated callable that itself logs), "
             "a tag variable that changes after the statement started, a sticky manipulator and an inserter that fails the "
             "buffer; each program is compiled for all 6 compile-time minima and loops over ALL "
             "threshold vectors; between a statement's markers the events must be exactly nothing or one formatter "
             "call then one sink call per sequence member in order with the statement's severity, tag and "
             "concatenated message. ASan/UBSan watch the record/buffer ownership along the << chain. A concurrent phase (harness/mtindep.cpp) repeats a fixed job list from 2-16 threads on thread-private objects: results must equal the serial ones and ThreadSanitizer must stay silent (hidden shared state).",
        design_ref="DESIGN.md section 4, C05",
        note="Programs are sampled (2 quick / 24 thorough); single-threaded, so 'program order' is the event order.",
        technique="trace monitor over generated programs: event log vs expected event list, under ASan/UBSan + ThreadSanitizer on concurrent independent use",
    ),
    "C06": dict(
        category="fault_enumeration", engine="fvmodel",
        text="In-process monitor over fixed_vector with instance-counting element types (copyable and move-only; a "
             "registry of live addresses detects double destruction, destruction of unknown objects and leaks at the "
             "event; origin tags tell container-made from caller-made elements): after every operation size <= "
             "capacity, fixed capacity, guard failures raise and leave the container unchanged, only caller-made "
             "elements visible; ASan+UBSan+LSan+_GLIBCXX_ASSERTIONS watch the same executions. Exhaustive operation "
             "sequences to depth 3 for capacities 0-3 (deeper for small capacities / thorough), random long ones; for "
             "the last operation of each exhaustive sequence EVERY element copy/move position is made to throw in turn. A concurrent phase (harness/mtindep.cpp) repeats a fixed job list from 2-16 threads on thread-private objects: results must equal the serial ones and ThreadSanitizer must stay silent (hidden shared state).",
        design_ref="DESIGN.md section 4, C06",
        note="front()/back()/operator[] outside [0,size) are caller preconditions and not exercised; after an injected "
             "element throw only bounds, size<=capacity, no leak and no double destruction are demanded. A clean "
             "sanitizer run is not memory safety.",
        technique="invariant monitor with instrumented element types + fault enumeration under ASan/UBSan/LSan + ThreadSanitizer on concurrent independent use",
    ),
    "C07": dict(
        category="exploration", engine="fvmodel",
        text="Reference-model monitor: after every operation of every sequence (same enumeration as C06) both "
             "containers of the harness are read through size/[]/at/begin-end/cbegin-cend/rbegin-rend/crbegin-crend/"
             "data/front/back and compared with a std::vector<int> of unique element ids bounded by the capacity; "
             "copies stay independent because both containers keep being operated on and compared; assignments must "
             "return the target. A compile probe reports insert(const T&) not compiling. A concurrent phase (harness/mtindep.cpp) repeats a fixed job list from 2-16 threads on thread-private objects: results must equal the serial ones and ThreadSanitizer must stay silent (hidden shared state).",
        design_ref="DESIGN.md section 4, C07",
        note="Capacity after an assignment and the contents of a moved-from container are adopted from the "
             "observation (the property leaves them open); interior range inserts are compared only for fit, not for "
             "overwrite-vs-shift. A sanitizer crash makes the C07 run inconclusive (it is C06's verdict).",
        technique="reference-model (bounded std::vector) runtime monitor, exhaustive small-scope + random histories + ThreadSanitizer on concurrent independent use",
    ),
    "C08": dict(
        category="exploration", engine="strdrv",
        text="Python oracle (placeholders = left-to-right non-overlapping `{}` of the format, each replaced once, "
             "argument text never rescanned) against the real formatter under ASan/UBSan: all format strings over "
             "{'{','}','a',' '} up to length 7 (quick) / 9 (thorough) x argument counts 0..k+1 x a rotating argument "
             "pool containing '{}', '{', '}{' x {operator%, args(...)}; str(), conversion and operator<< must agree; "
             "wrong arity must raise on all three; random typed arguments; messages of raised exceptions (1-6 mixed "
             "arguments, custom exception type, format object) must be the concatenation. A concurrent phase (harness/mtindep.cpp) repeats a fixed job list from 2-16 threads on thread-private objects: results must equal the serial ones and ThreadSanitizer must stay silent (hidden shared state).",
        design_ref="DESIGN.md section 4, C08",
        note="char / wchar_t formatters other than char are not driven; double arguments use values whose %g text is exact.",
        technique="reference-function differential monitoring, exhaustive small-scope enumeration under ASan/UBSan + ThreadSanitizer on concurrent independent use",
    ),
    "C09": dict(
        category="exploration", engine="mtlog",
        text="std::cout/std::cerr get a deliberately non-thread-safe two-stage stream buffer (writes fill a staging area in "
             "two halves with a seeded yield in between, flushes drain it into the capture, all through plain variables; "
             "overlap detector on relaxed atomics so that no happens-before edge is added) "
             "and 2-16 threads log 200-2000 records each through four sink topologies, incl. two logger TYPES sharing "
             "stdout_mt; an offline checker parses the capture (whole records only, exactly once, per-thread order, "
             "count); the same workload runs under gcc ThreadSanitizer (thorough: also clang TSan and ASan). Evidence "
             "reports contended buffer entries and distinct thread orders observed.",
        design_ref="DESIGN.md section 4, C09",
        note="Schedules are sampled and perturbed, never exhausted: the claim is 'held on these N schedules'. "
             "In the combined stdout+stderr topology the cerr-cout tie is removed (DESIGN.md section 5, last paragraph).",
        technique="race-detecting stream buffer + offline history checker + ThreadSanitizer, schedule perturbation",
    ),
    "C10": dict(
        category="exploration", engine="loggen",
        text="Same generated programs as C05, other projection: LAZY (callable invoked) and INS (inserted object's "
             "operator<< ran) events per statement execution must be empty when the statement is below the compile-time "
             "minimum or rejected by the runtime filter, and exactly one per streamed callable/object, in stream order "
             "and before the formatter runs, when it is emitted; each program prints is_same<decltype(L::sev()), "
             "null_stream> for all severities and the oracle compares with sev < minimum for all 6 minima. A concurrent phase (harness/mtindep.cpp) repeats a fixed job list from 2-16 threads on thread-private objects: results must equal the serial ones and ThreadSanitizer must stay silent (hidden shared state).",
        design_ref="DESIGN.md section 4, C10",
        note="The type-level half is decided only for the configurations that were compiled (6 minima x 6 severities "
             "x the generated logger types).",
        technique="trace monitor over generated programs compiled per configuration + ThreadSanitizer on concurrent independent use",
    ),
    "C11": dict(
        category="exploration",
        text="Exhaustive over toggle declarations {letter?, reversible?, default none/0/1/3, env unbound/truthy/falsy} "
             "x all occurrence sequences up to length 3 (quick) / 4 (thorough) over {--t, -t, -tt, -tu, -ut, --no-t, "
             "--u, other option}, plus every documented env word, all case variants, near misses and random words, "
             "judged against the reference model (count, provided, parsing_error). A concurrent phase (harness/mtindep.cpp) repeats a fixed job list from 2-16 threads on thread-private objects: results must equal the serial ones and ThreadSanitizer must stay silent (hidden shared state).",
        design_ref="DESIGN.md section 4, C11",
        note="Closed-world vocabulary claim is sampled outside the enumerated variants (200 / 3000 random words).",
        technique="reference-model runtime monitor, exhaustive small-scope enumeration under ASan/UBSan + ThreadSanitizer on concurrent independent use",
    ),
    "C12": dict(
        category="exploration",
        text="Accepted counts {none,0,1,2,3,unlimited} x greedy x all vectors up to length 4 (quick) / 5 (thorough) "
             "over {value, empty, a=b, option=value, option awaiting value, toggle, --}, random vectors aimed at "
             "exactly limit / limit+1 positionals with hostile tokens behind `--`; positionals compared verbatim and "
             "get(i)/operator[] probed for every i in [-n-1, n] on every accepted result. A concurrent phase (harness/mtindep.cpp) repeats a fixed job list from 2-16 threads on thread-private objects: results must equal the serial ones and ThreadSanitizer must stay silent (hidden shared state).",
        design_ref="DESIGN.md section 4, C12",
        note="Bounded vector length; uses parse(argc, argv), the entry point a program has.",
        technique="reference-model runtime monitor, exhaustive small-scope enumeration under ASan/UBSan + ThreadSanitizer on concurrent independent use",
    ),
    "C13": dict(
        category="exploration",
        text="Every declaration call of all call sequences up to length 4 over a 15-call alphabet (and random "
             "sequences up to 12 over a larger one) is judged by a model of the declaration table: ok + object "
             "identity or parser_error; the finished parser must refuse to parse iff two options share a letter and "
             "every declared name/letter, spelled once, must move exactly its own option. MOVE steps destroy the "
             "moved-from parser so that ASan sees stale back-references. A concurrent phase (harness/mtindep.cpp) repeats a fixed job list from 2-16 threads on thread-private objects: results must equal the serial ones and ThreadSanitizer must stay silent (hidden shared state).",
        design_ref="DESIGN.md section 4, C13",
        note="Small name/letter alphabets (collisions are the point); addresses are compared only between two moves.",
        technique="history monitor against a declaration-table model + AddressSanitizer + ThreadSanitizer on concurrent independent use",
    ),
    "C14": dict(
        category="exploration",
        text="Differential runtime monitor: every 2nd..6th parse() on a long-lived parser is compared, "
             "result for result, with a freshly built identical parser on the same vector and environment, "
             "under gcc ASan+UBSan. Sampled sequences (10k quick / 200k thorough) over a fixed declaration "
             "family plus random declarations; all four previous-outcome -> this-outcome cells are required. A concurrent phase (harness/mtindep.cpp) repeats a fixed job list from 2-16 threads on thread-private objects: results must equal the serial ones and ThreadSanitizer must stay silent (hidden shared state).",
        design_ref="DESIGN.md section 4, C14",
        note="Trusts the driver's rendering of the arguments object and that a freshly constructed parser is "
             "the reference; sequences are sampled, not exhaustive.",
        technique="differential runtime monitoring (long-lived vs fresh parser) under ASan/UBSan + ThreadSanitizer on concurrent independent use",
    ),
    "C15": dict(
        category="exploration",
        text="usage() of random declarations is rendered to five kinds of stream (fresh stringstream, stringstream "
             "with prior content, std::cout with a non-seekable buffer via explicit and default argument, a real "
             "pipe); the texts must be byte-identical, a structural parser must find every option in the synopsis and "
             "exactly one entry per option in group-creation / declaration order with every description, env-hint and "
             "default word in order, and every line over 80 columns must contain an unbreakable unit that cannot fit. A concurrent phase (harness/mtindep.cpp) repeats a fixed job list from 2-16 threads on thread-private objects: results must equal the serial ones and ThreadSanitizer must stay silent (hidden shared state).",
        design_ref="DESIGN.md section 4, C15",
        note="Wrap positions are not prescribed; about / group descriptions are kept <= 60 chars because they are "
             "printed unwrapped; ASCII texts only.",
        technique="output monitor: cross-stream differential + structural text oracle under ASan/UBSan + ThreadSanitizer on concurrent independent use",
    ),
    "C16": dict(
        category="exploration", engine="hashgrid",
        text="In-process monitor over exhaustive fixed grids: three tuple_operators structs, raw tuples, pairs, "
             "variants, nested tuple<variant,pair>, shared_ptr, unique_ptr; for all pairs x == y implies equal hashes, "
             "the six operators equal a hand-written lexicographic comparison, trichotomy; for all triples "
             "transitivity; per-position and swap sensitivity of the combined hash (collision rate <= 1 %); "
             "unordered_set/map find every inserted key and only those. ~600k pairs / 9M triples quick. A concurrent phase (harness/mtindep.cpp) repeats a fixed job list from 2-16 threads on thread-private objects: results must equal the serial ones and ThreadSanitizer must stay silent (hidden shared state).",
        design_ref="DESIGN.md section 4, C16",
        note="Grids are fixed (deterministic); the 1 % collision bound has two orders of magnitude of margin (0 measured).",
        technique="exhaustive grid relation checking (in-process monitor) under ASan/UBSan + ThreadSanitizer on concurrent independent use",
    ),
    "C17": dict(
        category="exploration", engine="strdrv",
        text="Python oracles (str.split, str.replace incl. the empty pattern, str.startswith, infix.join of the "
             "non-empty elements) and the three split laws, evaluated on exhaustive strings over {a,b,blank} up to "
             "length 6 (quick) / 8 (thorough) x separators/patterns up to length 3 (empty included) x replacements up "
             "to length 2, all lists of 0-4 elements over {'', 'a', 'a ', ' ', 'ab'} x 6 infixes, plus random longer "
             "inputs; 'returns for every input' is decided by a CPU-time budget with one re-run, under ASan/UBSan. A concurrent phase (harness/mtindep.cpp) repeats a fixed job list from 2-16 threads on thread-private objects: results must equal the serial ones and ThreadSanitizer must stay silent (hidden shared state).",
        design_ref="DESIGN.md section 4, C17",
        note="The empty pattern is judged with Python's semantics (replacement before every character and at the end).",
        technique="reference-function differential monitoring + CPU-time watchdog, exhaustive small-scope enumeration + ThreadSanitizer on concurrent independent use",
    ),
    "C18": dict(
        category="exploration", engine="ownhist",
        text="Ownership-history monitor: payload types of three sizes register every live instance by address with a "
             "type tag checked in the destructor (double destruction, destruction through another type's destructor "
             "and leaks are seen at the event); a model of slot -> object says after every operation which objects "
             "must be destroyed by now (exactly when reset, overwritten or the last owner dies). Exhaustive histories "
             "over 2 slots + a std::vector (reallocation) to depth 4/5, random over 4 slots; optionals: values live at "
             "distinct addresses, assign-empty empties, reading empty raises. ASan+LSan watch. A concurrent phase (harness/mtindep.cpp) repeats a fixed job list from 2-16 threads on thread-private objects: results must equal the serial ones and ThreadSanitizer must stay silent (hidden shared state).",
        design_ref="DESIGN.md section 4, C18",
        note="After a self-move the pointer may be empty or keep its object (both accepted, but never a leak or a "
             "double destruction).",
        technique="history monitor with instance-registry payload types under ASan/LSan + ThreadSanitizer on concurrent independent use",
    ),
    "C19": dict(
        category="exploration", engine="envdl",
        text="env: model dict vs nitro::env::get over seeded set/unset/get histories (both overloads, empty values, "
             "arbitrary bytes). dl: ld --wrap on dlopen/dlclose/dlsym/dlerror prints every loader call of the "
             "header-only wrapper; a refcount model decides for every dlclose whether it was due (no close while a "
             "dl object, symbol or copy is alive, exactly one close after the last, never dlclose(NULL)), "
             "dlopen(RTLD_NOLOAD) probes mapped state after every step, symbols are called after their dl object died, "
             "failures must raise dl::exception carrying exactly the loader's dlerror text. A concurrent phase (harness/mtindep.cpp) repeats a fixed job list from 2-16 threads on thread-private objects: results must equal the serial ones and ThreadSanitizer must stay silent (hidden shared state).",
        design_ref="DESIGN.md section 4, C19",
        note="Two tiny test libraries built by the check, a missing library and the program itself; histories of "
             "length 30 over 4+4 slots are sampled.",
        technique="history monitor with linker-wrapped loader calls and a refcount model under ASan + serial-vs-concurrent differential on concurrent independent use (no ThreadSanitizer: the loader's lock is invisible to it)",
    ),
    "C20": dict(
        category="exploration", engine="iteradapt",
        text="Full finite product {vector, list, deque, map, std::array, built-in array, initializer list, "
             "fixed_vector} x {lvalue, const, rvalue} x lengths 0..5 (thorough 0..64) x {enumerate, reverse}: exact "
             "(index, value) sequence, address identity of visited values for lvalue/const ranges, writes read back "
             "from the container, temporaries iterated under ASan (use-after-scope). A concurrent phase (harness/mtindep.cpp) repeats a fixed job list from 2-16 threads on thread-private objects: results must equal the serial ones and ThreadSanitizer must stay silent (hidden shared state).",
        design_ref="DESIGN.md section 4, C20",
        note="Each container kind is its own case so a sanitizer report is attributed to the kind.",
        technique="exhaustive small-scope enumeration (in-process monitor) under ASan/UBSan + ThreadSanitizer on concurrent independent use",
    ),
}

NOT_YET = "check not built yet (work in progress, see DESIGN.md section 8a)"


LAYERS = (" Every generator additionally carries the layers of DESIGN.md section 10, each added because an independent "
          "seeded change showed the gap: sizes and counts beyond small buffers and narrow counters, objects with a "
          "history (earlier calls, incomplete declarations, recycled addresses on an uninstrumented build share), "
          "rotated argument / element / return types and overloads, and the rarely used public entry points.")


def main():
    checks = []
    for pid in ALL:
        if pid not in CHECKS:
            continue
        c = CHECKS[pid]
        checks.append({
            "property_id": pid,
            "quick_cmd": "bin/check %s quick" % pid,
            "thorough_cmd": "bin/check %s thorough" % pid,
            "evidence_file": "evidence/%s.json" % pid,
            "replay_cmd_template": "bin/check %s --replay {path}" % pid,
            "engine": c.get("engine", "optdrv"),
            "level_claimed": {"category": c["category"], "text": c["text"] + LAYERS, "design_ref": c["design_ref"]},
            "level_note": c["note"],
            "technique": c["technique"],
        })
    m = {
        "version": 1,
        "setup_cmd": "python3 bin/setup.py",
        "hooks": {
            "guard": "NITRO_VERIF",
            "enable": "no hooks are needed: every observation point is public (user-supplied sink/formatter/"
                      "filter template parameters, replaceable rdbuf, ld --wrap on the header-only dl wrapper, "
                      "instrumented element types); harnesses are compiled with -DNITRO_VERIF for uniformity",
            "baseline_off_cmd": "cmake --build /repo/_build && ctest --test-dir /repo/_build -j8 --timeout 900",
            "source_commits": [],
            "add_only": True,
        },
        "engines": [
            {"name": "fvmodel", "path": "harness/fvmodel.cpp", "serves_properties": ["C06", "C07"],
             "kind_free_text": "in-process operation-sequence enumerator for fixed_vector with instrumented element "
                               "types, a bounded-sequence reference model and element-throw fault enumeration"},
            {"name": "loggen", "path": "lib/loggen.py", "serves_properties": ["C05", "C10"],
             "kind_free_text": "generator of logging programs + expected event lists; programs are compiled per "
                               "compile-time minimum with ASan/UBSan and their event logs compared"},
            {"name": "mtlog", "path": "harness/mtlog.cpp", "serves_properties": ["C09"],
             "kind_free_text": "multi-threaded logging through racy stream buffers; plain, TSan and ASan builds"},
            {"name": "hashgrid", "path": "harness/hashgrid.cpp", "serves_properties": ["C16"],
             "kind_free_text": "exhaustive grids for hash/equality/ordering coherence"},
            {"name": "envdl", "path": "harness/envdl.cpp", "serves_properties": ["C19"],
             "kind_free_text": "env/dl history driver with ld --wrap'ped loader calls"},
            {"name": "iteradapt", "path": "harness/iteradapt.cpp", "serves_properties": ["C20"],
             "kind_free_text": "enumerate/reverse over the container-kind x value-category x length product"},
            {"name": "mtindep", "path": "harness/mtindep.cpp",
             "serves_properties": ["C01", "C02", "C03", "C04", "C05", "C06", "C07", "C08", "C10", "C11", "C12", "C13", "C14",
                                   "C15", "C16", "C17", "C18", "C19", "C20"],
             "kind_free_text": "concurrent independent use: threads work on their own objects; serial-vs-concurrent "
                               "differential oracle plus ThreadSanitizer (gcc, clang), ASan and plain builds"},
            {"name": "strdrv", "path": "harness/strdrv.cpp", "serves_properties": ["C08", "C17"],
             "kind_free_text": "line-per-operation driver for nitro::lang string functions and nitro::format, batched "
                               "with per-operation re-run for crash/hang attribution; Python oracles"},
            {"name": "ownhist", "path": "harness/ownhist.cpp", "serves_properties": ["C18"],
             "kind_free_text": "in-process ownership-history enumerator for quaint_ptr and lang::optional"},
            {"name": "optdrv", "path": "harness/optdrv.cpp",
             "serves_properties": ["C01", "C02", "C03", "C04", "C11", "C12", "C13", "C14", "C15"],
             "kind_free_text": "script driver for nitro::options built with ASan+UBSan; Python reference model "
                               "(lib/optmodel.py) and generators (lib/optgen.py) decide the verdict"},
        ],
        "checks": checks,
        "notes": "Runtime monitoring and sanitizers only. Exit 0 held / 1 violation / 2 inconclusive. "
                 "VERIF_SEED seeds every random choice. known_findings.txt lists recorded and fixed defects.",
        "not_applicable": [{"property_id": p, "reason": NOT_YET} for p in ALL if p not in CHECKS],
    }
    with open(os.path.join(VERIF, "MANIFEST.json"), "w") as fh:
        json.dump(m, fh, indent=1)
        fh.write("\n")


if __name__ == "__main__":
    main()
