#!/usr/bin/env python3
"""Writes /verif/MANIFEST.json from the table below (single source of truth)."""
import json
import os

VERIF = os.path.dirname(os.path.dirname(os.path.abspath(__file__)))
ALL = ["C%02d" % i for i in range(1, 21)]

CHECKS = {
    "C14": dict(
        category="exploration",
        text="Differential runtime monitor: every 2nd..6th parse() on a long-lived parser is compared, "
             "result for result, with a freshly built identical parser on the same vector and environment, "
             "under gcc ASan+UBSan. Sampled sequences (10k quick / 200k thorough) over a fixed declaration "
             "family plus random declarations; all four previous-outcome -> this-outcome cells are required.",
        design_ref="DESIGN.md section 4, C14",
        note="Trusts the driver's rendering of the arguments object and that a freshly constructed parser is "
             "the reference; sequences are sampled, not exhaustive.",
        technique="differential runtime monitoring (long-lived vs fresh parser) under ASan/UBSan",
    ),
}

NOT_YET = "check not built yet (work in progress, see DESIGN.md section 8a)"


def main():
    checks = []
    for pid in ALL:
        if pid not in CHECKS:
            continue
        c = CHECKS[pid]
        checks.append({
            "property_id": pid,
            "quick_cmd": "bin/check %s quick" % pid,
            "thorough_cmd": "bin/check %s thorough" % pid,
            "evidence_file": "evidence/%s.json" % pid,
            "replay_cmd_template": "bin/check %s --replay {path}" % pid,
            "engine": c.get("engine", "optdrv"),
            "level_claimed": {"category": c["category"], "text": c["text"], "design_ref": c["design_ref"]},
            "level_note": c["note"],
            "technique": c["technique"],
        })
    m = {
        "version": 1,
        "setup_cmd": "python3 lib/build.py",
        "hooks": {
            "guard": "NITRO_VERIF",
            "enable": "no hooks are needed: every observation point is public (user-supplied sink/formatter/"
                      "filter template parameters, replaceable rdbuf, ld --wrap on the header-only dl wrapper, "
                      "instrumented element types); harnesses are compiled with -DNITRO_VERIF for uniformity",
            "baseline_off_cmd": "cmake --build /repo/_build && ctest --test-dir /repo/_build -j8 --timeout 900",
            "source_commits": [],
            "add_only": True,
        },
        "engines": [
            {"name": "optdrv", "path": "harness/optdrv.cpp",
             "serves_properties": ["C01", "C02", "C03", "C04", "C11", "C12", "C13", "C14", "C15"],
             "kind_free_text": "script driver for nitro::options built with ASan+UBSan; Python reference model "
                               "(lib/optmodel.py) and generators (lib/optgen.py) decide the verdict"},
        ],
        "checks": checks,
        "notes": "Runtime monitoring and sanitizers only. Exit 0 held / 1 violation / 2 inconclusive. "
                 "VERIF_SEED seeds every random choice. known_findings.txt lists recorded and fixed defects.",
        "not_applicable": [{"property_id": p, "reason": NOT_YET} for p in ALL if p not in CHECKS],
    }
    with open(os.path.join(VERIF, "MANIFEST.json"), "w") as fh:
        json.dump(m, fh, indent=1)
        fh.write("\n")


if __name__ == "__main__":
    main()
