"""C08 - format substitutes placeholders positionally, verbatim, with exact arity.
Python oracle: placeholders are the left-to-right non-overlapping `{}` of the FORMAT; each is
replaced once by the stream text of the matching argument; the three observation routes
(str(), conversion to std::string, operator<<) must agree; wrong arity must raise on all of
them; exception messages are the concatenation of the argument texts."""
import itertools
import random

import batchrun
import mtindep
import build
import optrun
import verdict
from driver import hx

PROP = "C08"
LEVEL = "exploration"
RULE = ("all format strings over {'{', '}', 'a', ' '} up to length 7 (quick) / 9 (thorough) x argument counts "
        "0..k+1 x rotating argument pool {'', 'x', '{}', '{', '}{', '{}{}', '}'} x {operator%, args(...)}; a seeded "
        "random layer with typed arguments (int, short, long long, unsigned long long, bool, char, unsigned char, float, "
        "double, const char*, std::string lvalue / rvalue, string_view, char[64] and const char[64] buffers larger than "
        "their text); raised exception "
        "messages with 1-6 mixed arguments and a format object; a scale layer (8 ... 1000 placeholders, arguments "
        "and literals of 15 ... 70000 bytes); a concurrent phase (lib/mtindep.py: 2-16 threads formatting and raising "
        "with thread-private objects under ThreadSanitizer, results compared with the serial ones); distinct_nontrivial = distinct (format, arguments, "
        "route) tuples whose format has at least one placeholder or whose arity is wrong")

ALPHA = [b"{", b"}", b"a", b" "]
POOL = [b"", b"x", b"{}", b"{", b"}{", b"{}{}", b"}"]


def formats(maxlen):
    for n in range(maxlen + 1):
        for t in itertools.product(ALPHA, repeat=n):
            yield b"".join(t)


def reference(fmt, args):
    """-> text or None when the arity is wrong"""
    parts = fmt.split(b"{}")
    if len(parts) - 1 != len(args):
        return None
    out = parts[0]
    for a, p in zip(args, parts[1:]):
        out += a + p
    return out


def _jobs(tier):
    L = 7 if tier == "quick" else 9
    i = 0
    for f in formats(L):
        k = f.count(b"{}") if b"{}" in f else 0
        k = len(f.split(b"{}")) - 1
        for n in range(0, k + 2):
            for variant in range(2):
                args = [POOL[(i + j * (variant + 1) + variant) % len(POOL)] for j in range(n)]
                how = "%" if ((i // 2) + variant) % 2 == 0 else "a"
                if n > 6 and how == "a":
                    how = "%"
                i += 1
                yield ("fmt", how, f, [("s", a) for a in args])


LITERALS = [b"{}", b"a{}b{}", b"{{}}", b"", b"{} {}{} }{"]


def _typed(rng):
    kinds = []
    n = rng.randint(0, 5)
    texts = []
    for _ in range(n):
        k = rng.choice("sildcp" + "bBvSuftyh")      # second group: other argument TYPES with the same text
        if k in "spbBvS":
            v = rng.choice(POOL + [b"hello world", b"\xc3\xa4", b"%d", b"\n"])
            if k in "pbB":
                v = v.replace(b"\0", b"")
            kinds.append((k, v))
            texts.append(v)
        elif k == "u":
            v = rng.choice([0, 7, 4294967296, 18446744073709551615])
            kinds.append((k, v))
            texts.append(str(v).encode())
        elif k == "t":
            v = rng.choice([0, 1])
            kinds.append((k, v))
            texts.append(str(v).encode())
        elif k == "f":
            v = rng.choice([0.5, -2.25, 3.0, 0.125, 1024.0])
            kinds.append((k, v))
            texts.append(("%g" % v).encode())
        elif k == "h":
            v = rng.choice([0, -1, 32767, -32768, 255])
            kinds.append((k, v))
            texts.append(str(v).encode())
        elif k == "y":
            v = rng.choice([65, 97, 123, 125, 200])
            kinds.append((k, v))
            texts.append(bytes([v]))
        elif k == "i":
            v = rng.choice([0, 1, -1, 42, -2147483648, 2147483647, rng.randint(-10 ** 6, 10 ** 6)])
            kinds.append((k, v))
            texts.append(str(v).encode())
        elif k == "l":
            v = rng.choice([0, -9223372036854775807, 9223372036854775807, rng.randint(-10 ** 15, 10 ** 15)])
            kinds.append((k, v))
            texts.append(str(v).encode())
        elif k == "d":
            v = rng.choice([0.0, 0.5, -2.25, 1e10, 3.0, 1234567.0, 0.125, -1e-3, 100000.0, 1e6])
            kinds.append((k, v))
            texts.append(("%g" % v).encode())
        else:
            v = rng.choice([65, 97, 123, 125, 32, 48])
            kinds.append((k, v))
            texts.append(bytes([v]))
    return kinds, texts


def _random_jobs(rng, n):
    pieces = [b"{}", b"{}", b"{", b"}", b"a", b" ", b"text", b"{{}}", b"{ }", b"%", b"\n", b"}{"]
    for _ in range(n):
        r = rng.random()
        if r < 0.7:
            f = b"".join(rng.choice(pieces) for _ in range(rng.randint(0, 8)))
            kinds, texts = _typed(rng)
            k = len(f.split(b"{}")) - 1
            if rng.random() < 0.6:
                # right arity most of the time
                while len(kinds) < k:
                    kinds.append(("s", b"y"))
                    texts.append(b"y")
                kinds, texts = kinds[:k], texts[:k]
            yield ("fmt", "%", f, kinds, texts)
        elif r < 0.705:
            f = b"".join(rng.choice(pieces) for _ in range(rng.randint(0, 5)))
            k = len(f.split(b"{}")) - 1
            yield ("raiseft", f, rng.choice([b" tail", b"", b"{}", b": "]), rng.randint(-9, 99), [rng.choice(POOL) for _ in range(k)])
        elif r < 0.715:
            yield ("raiseb", rng.choice([b"bad value: ", b"", b"x", b"{}"]), rng.randint(-50, 300),
                   rng.choice([b" units", b"", b", "]))
        elif r < 0.73:
            # a manipulator in the argument list acts on that message only
            yield ("raisem", rng.choice(POOL + [b"mask 0x"]), rng.randint(-50, 300), rng.choice(["hex", "bool", "prec"]))
        elif r < 0.9:
            n_args = rng.randint(1, 6)
            yield ("raise", rng.choice("nc") if n_args <= 2 else "n", n_args,
                   [rng.choice(POOL + [b"msg ", b"a b"]) for _ in range(6)], [rng.randint(-50, 50) for _ in range(6)])
        elif r < 0.96:
            f = b"".join(rng.choice(pieces) for _ in range(rng.randint(0, 6)))
            k = len(f.split(b"{}")) - 1
            yield ("raisef", f, [rng.choice(POOL) for _ in range(k)])
        else:
            idx = rng.randrange(len(LITERALS))
            k = len(LITERALS[idx].split(b"{}")) - 1
            n_args = rng.choice([k, k, k, max(0, k - 1), k + 1])
            yield ("fmt", "L%d" % idx, LITERALS[idx], [("s", rng.choice(POOL)) for _ in range(n_args)])


LONGS = [b"p" * 15, b"q" * 16, b"r" * 17, b"s" * 255, b"t" * 256, b"u" * 257, b"v" * 4096, b"w" * 4097,
         b"{}" * 40, b"y" * 70000]


def _scale_jobs(rng, tier):
    """placeholder counts, argument lengths and literal lengths beyond small fixed-size tables"""
    seps = [b"", b" ", b"ab", b"{", b"}", b"-" * 20]
    for k in (8, 9, 15, 16, 17, 18, 31, 32, 33, 64, 65, 100, 255, 256, 257, 1000):
        for rep in range(2 if tier == "quick" else 6):
            f = rng.choice(seps) + b"".join(b"{}" + rng.choice(seps[:3] if rep else seps[:1]) for _ in range(k))
            kk = len(f.split(b"{}")) - 1
            for n in (kk, kk - 1, kk + 1, 16, 17):
                args = [rng.choice(POOL + [b"%d" % j]) for j in range(n)]
                yield ("fmt", "%", f, [("s", a) for a in args])
    for a in LONGS:
        for f in (b"{}", b"x{}y{}", b"{}" + b"L" * 300 + b"{}", b"M" * 5000 + b"{}"):
            kk = len(f.split(b"{}")) - 1
            yield ("fmt", rng.choice("%a"), f, [("s", a)] * kk)
        yield ("raise", "n", 1, [a] * 6, [0] * 6)
        yield ("raisef", b"<{}>", [a])
    for n in (1000, 70000):
        yield ("fmt", "%", b"N" * n, [])
        yield ("fmt", "%", b"N" * n, [("s", b"x")])


def _argtok(k, v):
    if k in "spbBvS":
        return "%s:%s" % (k, hx(v))
    if k in "df":
        return "%s:%r" % (k, v)
    return "%s:%d" % (k, v)


def op_line(job):
    if job[0] == "fmt" and job[1].startswith("L"):
        return " ".join(["FMTL", job[1][1:]] + [_argtok(k, v) for k, v in job[3]])
    if job[0] == "fmt":
        return " ".join(["FMT", job[1], hx(job[2])] + [_argtok(k, v) for k, v in job[3]])
    if job[0] == "raise":
        _, cust, n, strs, nums = job
        table = {1: "s", 2: "si", 3: "sis", 4: "issx", 5: "ssids", 6: "sisiss"}[n]
        toks = []
        for i, k in enumerate(table):
            if k == "s":
                toks.append("s:" + hx(strs[i]))
            elif k == "i":
                toks.append("i:%d" % nums[i])
            else:
                toks.append("s:" + hx(b""))
        return " ".join(["RAISE", cust] + toks)
    if job[0] == "raisef":
        return " ".join(["RAISEF", hx(job[1])] + ["s:" + hx(a) for a in job[2]])
    if job[0] == "raisem":
        return "RAISEM s:%s i:%d %s" % (hx(job[1]), job[2], job[3])
    if job[0] == "raiseb":
        return "RAISEB s:%s i:%d s:%s" % (hx(job[1]), job[2], hx(job[3]))
    if job[0] == "raiseft":
        return " ".join(["RAISEFT", hx(job[1]), "s:" + hx(job[2]), "i:%d" % job[3]] + ["s:" + hx(a) for a in job[4]])
    raise ValueError(job)


def expected_raise(job):
    _, cust, n, strs, nums = job
    table = {1: "s", 2: "si", 3: "sis", 4: "issx", 5: "ssids", 6: "sisiss"}[n]
    out = b""
    for i, k in enumerate(table):
        if k == "s":
            out += strs[i]
        elif k == "i":
            out += str(nums[i]).encode()
        elif k == "x":
            out += b"x"
        elif k == "d":
            out += b"2.5"
    return out


def judge(job, res):
    if res[0] == "timeout":
        return ("timeout:" + job[0], "did not return within the CPU budget")
    if res[0] == "crash":
        return ("crash:%s:%s" % (job[0], res[1]), res[2][-1500:])
    if res[0] != "ok":
        return None
    line = res[1]
    if job[0] == "fmt":
        fmt = job[2]
        texts = job[4] if len(job) > 4 else [v for _, v in job[3]]
        want = reference(fmt, texts)
        f = line.split()
        if f[0] != "F" or len(f) != 4:
            return ("format:driver-line", line[:200])
        routes = f[1:]
        names = ["str()", "conversion", "operator<<"]
        if want is None:
            k = len(fmt.split(b"{}")) - 1
            which = "more" if len(texts) > k else "fewer"
            for r, nm in zip(routes, names):
                if not r.startswith("!"):
                    return ("format:wrong-arity-did-not-raise:%s-arguments:%s" % (which, nm),
                            "format %r with %d arguments (%d placeholders) gave %s" % (fmt, len(texts), k, r[:120]))
                if "nitro::except::exception" not in r:
                    return ("format:wrong-arity-raised-foreign-exception", r[:200])
            return None
        got = []
        for r, nm in zip(routes, names):
            if not r.startswith("ok:"):
                return ("format:right-arity-raised:" + nm, "format %r args %r: %s" % (fmt, texts, r[:200]))
            got.append(bytes.fromhex(r[4:]))
        if got[0] != want:
            cls = "argument-contains-placeholder" if any(b"{}" in t for t in texts) else \
                ("brace-literals" if (fmt.replace(b"{}", b"").count(b"{") + fmt.replace(b"{}", b"").count(b"}")) else "plain")
            return ("format:text-differs:" + cls, "format %r %% %r = %r, expected %r" % (fmt, texts, got[0], want))
        if got[1] != got[0] or got[2] != got[0]:
            return ("format:routes-disagree", "str() %r conversion %r operator<< %r" % tuple(got))
        return None
    if job[0] == "raise":
        want = expected_raise(job)
        f = line.split()
        if f[0] != "X" or len(f) != 3:
            return ("raise:no-library-exception", line[:200])
        if f[1] != ("custom" if job[1] == "c" else "nitro"):
            return ("raise:wrong-exception-type", line[:200])
        got = bytes.fromhex(f[2][1:])
        if got != want:
            return ("raise:message-is-not-the-concatenation", "what() = %r, expected %r" % (got, want))
        return None
    if job[0] == "raiseft":
        text = reference(job[1], job[4])
        num = str(job[3]).encode()
        want = [text + job[2] + num, text + job[2] + num, num + text + job[2]]
        f = line.split()
        if len(f) != 5 or f[1] != "nitro":
            return ("raise:no-library-exception", line[:200])
        got = [bytes.fromhex(x[1:]) for x in f[2:]]
        for g, w_, how in zip(got, want, ("raise(format, text, number)", "raise<custom>(format temporary, text, number)",
                                          "raise(number, format, text)")):
            if g != w_:
                return ("raise:format-object-among-other-arguments:message-is-not-the-concatenation",
                        "%s: what() = %r, expected %r" % (how, g, w_))
        return None
    if job[0] == "raiseb":
        want = job[1] + str(job[2]).encode() + job[3] + job[1]
        f = line.split()
        if len(f) != 3 or f[1] != "nitro":
            return ("raise:no-library-exception", line[:200])
        got = bytes.fromhex(f[2][1:])
        if got != want:
            return ("raise:message-with-character-buffer-arguments-differs", "what() = %r, expected %r" % (got, want))
        return None
    if job[0] == "raisem":
        text, num, how = job[1], job[2], job[3]
        if how == "hex":
            want = text + ("%x" % (num & 0xffffffff)).encode()
        elif how == "bool":
            want = text + (b"true" if num else b"false")
        else:
            want = text + ("%.3g" % (num / 7.0)).encode()
        f = line.split()
        if len(f) != 3 or f[1] != "nitro":
            return ("raise:no-library-exception", line[:200])
        got = bytes.fromhex(f[2][1:])
        if got != want:
            return ("raise:message-with-manipulator-differs", "what() = %r, expected %r" % (got, want))
        return None
    if job[0] == "raisef":
        want = reference(job[1], job[2])
        f = line.split()
        if len(f) != 3 or f[1] != "nitro":
            return ("raise-format:no-library-exception", line[:200])
        got = bytes.fromhex(f[2][1:])
        if got != want:
            return ("raise-format:message-differs", "what() = %r, expected %r" % (got, want))
    return None


def _work(arg):
    tier, seed, chunk, nch, exe = arg
    S = optrun.Summary()
    jobs = [j for i, j in enumerate(_jobs(tier)) if i % nch == max(chunk, 0)]
    rng = random.Random("c08-%d-%d" % (seed, max(chunk, 0)))
    jobs += list(_random_jobs(rng, (30000 if tier == "quick" else 500000) // nch))
    if chunk % 4 == 0:
        jobs += list(_scale_jobs(rng, tier))
    if chunk < 0:
        # memcheck sample: small operations of chunk 0 on the uninstrumented build under valgrind (values used
        # before they were initialised are invisible to ASan / UBSan)
        small = [j for j in jobs if len(op_line(j)) < 400]
        random.Random("memcheck-%d" % seed).shuffle(small)
        jobs = small[:600 if tier == "quick" else 4000]
        res = batchrun.run_ops(exe, [op_line(j) for j in jobs], batch=100, cpu=90, wrapper=batchrun.MEMCHECK,
                               max_bad=2, max_bad_batches=1)   # (a hanging operation must not cost an hour here)
        S.counters["operations-under-memcheck"] += len(jobs)
    else:
        res = batchrun.run_ops(exe, [op_line(j) for j in jobs], batch=300, cpu=30)
    for job, r in zip(jobs, res):
        S.n += 1
        S.counters["kind:" + job[0]] += 1
        if job[0] == "fmt":
            k = len(job[2].split(b"{}")) - 1
            n = len(job[3])
            S.counters["arity:" + ("right" if n == k else ("more" if n > k else "fewer"))] += 1
            S.counters["route:" + ("literal" if job[1].startswith("L") else job[1])] += 1
            if any(b"{}" in (v if isinstance(v, bytes) else b"") for _, v in job[3]):
                S.counters["argument-contains-placeholder"] += 1
            if k >= 17:
                S.counters["scale:placeholders>=%d" % max(x for x in (17, 65, 257) if x <= k)] += 1
            if any(isinstance(v, bytes) and len(v) >= 255 for _, v in job[3]):
                S.counters["scale:argument>=255-bytes"] += 1
            if k > 0 or n != k:
                S.distinct.add(optrun.h64(job[1:4]))
        else:
            S.distinct.add(optrun.h64(job))
        if r[0] == "skipped":
            S.counters["skipped-after-enough-witnesses"] += 1
            continue
        if r[0] in ("watchdog", "missing"):
            S.inconc.append("operation not executed (%s)" % r[0])
            continue
        v = judge(job, r)
        if v:
            S.violation(v[0], v[1], {"job": list(job)})
        elif len(S.samples) < 4 and job[0] == "fmt" and len(job[3]) >= 2 and S.counters["kind:fmt"] % 97 == 0:
            S.samples.append({"format": job[2].decode("latin-1"), "args": [repr(v) for _, v in job[3]],
                              "via": job[1], "result": r[1][:160]})
    return S


def nchunks(tier):
    return 16 if tier == "quick" else 64


def run(tier, replay=None):
    import json
    run_ = verdict.Run(PROP, tier, LEVEL, replay_of=replay)
    exe = batchrun.strdrv("gasan")
    S = optrun.Summary()
    if replay:
        with open(replay) as fh:
            rcase = verdict.unhex_json(json.load(fh))["case"]
        if rcase.get("phase") == "concurrent-independent-use":
            mtindep.replay(run_, rcase, S.counters)
            return run_.finish(10, 1, RULE)
        job = rcase["job"]
        if job[0] == "fmt":
            job[3] = [tuple(x) for x in job[3]]
        job = tuple(job)
        res = batchrun.run_ops(exe, [op_line(job)])
        S.n = 1
        v = judge(job, res[0])
        if v:
            S.violation(v[0], v[1], {"job": list(job)})
        S.distinct = {1, 2}
    else:
        n = nchunks(tier)
        import shutil
        work = [(tier, run_.seed, c, n, exe) for c in range(n)]
        # every 4th chunk once more on the second compiler (clang ASan+UBSan)
        casan = batchrun.strdrv("casan")
        work += [(tier, run_.seed, c, n, casan) for c in range(0, n, 4)]
        if shutil.which("valgrind"):
            work.append((tier, run_.seed, -1, n, batchrun.strdrv("plain")))
        for part in optrun.pmap(_work, work):
            S.merge(part)
        # the same functions from 2-16 threads on thread-private arguments: serial results, no data race
        S.n += mtindep.phase(run_, "format", tier, S.counters)
    for key, what, case in S.viol:
        run_.violation(key, what, case)
    for r in S.inconc[:3]:
        run_.inconc(r)
    for s in S.samples:
        run_.sample(s)
    run_.coverage["counters"] = dict(sorted(S.counters.items()))
    if S.counters.get("skipped-after-enough-witnesses", 0) and not S.viol:
        run_.inconc("operations were skipped without a violation being recorded")
    if not replay:
        for need in ("arity:right", "arity:more", "arity:fewer", "argument-contains-placeholder", "kind:raise",
                     "kind:raisef", "route:%", "route:a", "scale:placeholders>=17", "scale:placeholders>=257",
                     "scale:argument>=255-bytes"):
            if S.counters.get(need, 0) == 0:
                run_.inconc("class never exercised: " + need)
    build.prune()
    return run_.finish(S.n, len(S.distinct), RULE)
