"""C13 - declarations stay unambiguous: one meaning per long name and per letter.
A Python model of the declaration table judges every declaration call (ok + object identity, or
parser_error); afterwards the parser must refuse to parse iff two options share a letter, and
every declared name and letter, spelled once, must move exactly its own option.  MOVE steps
move-construct the parser into a new heap object and destroy the old one (ASan sees a stale
back-reference as heap-use-after-free)."""
import itertools
import random

import optcheck
import optgen
import optoracle
import optrun
from driver import hx
from optmodel import model_parse, parse_observed, compare

PROP = "C13"
CONCURRENT = "parse"   # extra phase: lib/mtindep.py (parsers used by several threads at once)
LEVEL = "exploration"
RULE = ("all call sequences up to length 4 over {option, multi_option, toggle} x names {a, b} x groups "
        "{default, g1}, short_name(a), short_name(b), MOVE (15 calls; thorough adds length 5 on a sample "
        "and a larger alphabet), plus seeded random sequences up to length 12 over names {a, b, ab}, three "
        "groups, short names {a, b, '', 'ab'}, env and metavar setters; distinct_nontrivial = distinct "
        "sequences containing a name collision, a letter collision, a short-name change or a MOVE "
        "followed by a declaration; plus a scale part: the random sequences on parsers that already hold "
        "15 ... 300 options")

KIND = {"o": "OPT", "m": "MUL", "t": "TOG"}
SMALL = [("d", k, g, n) for k in "omt" for g in (-1, 0) for n in (b"a", b"b")] + \
        [("s", b"a"), ("s", b"b"), ("move",)]
BIG = [("d", k, g, n) for k in "omt" for g in (-1, -2, 0, 1) for n in (b"a", b"b", b"ab")] + \
      [("s", b"a"), ("s", b"b"), ("s", b""), ("s", b"ab"), ("s", b"a"), ("s", b"b"),
       ("e", b"E1"), ("e", b"E2"), ("v", b"MV"), ("v", b""), ("move",), ("move",), ("movea",), ("g", 0), ("g", 1),
       ("p",), ("p",)]    # p: the parser is USED (parse of an empty vector) in the middle of the declarations


def nchunks(tier):
    return 32 if tier == "quick" else 256


def gen(tier, seed, chunk, nch):
    cases = []
    k = 0
    for L in range(1, 5):
        for seq in itertools.product(range(len(SMALL)), repeat=L):
            k += 1
            if k % nch != chunk:
                continue
            cases.append({"calls": [SMALL[i] for i in seq]})
    rng = random.Random("c13-%d-%d" % (seed, chunk))
    if tier == "thorough":
        for _ in range(400000 // nch):
            cases.append({"calls": [SMALL[rng.randrange(len(SMALL))] for _ in range(5)]})
    for _ in range((16000 if tier == "quick" else 300000) // nch):
        n = rng.randint(3, 12)
        cases.append({"calls": [rng.choice(BIG) for _ in range(n)], "big": True})
    # 3-6 distinct options of random kinds and groups, each given a letter from a small set: every
    # pattern of clashing and non-clashing letters over every declaration / name order
    names = [b"a", b"ab", b"b", b"ba", b"c", b"zz", b"m"]
    for _ in range((8000 if tier == "quick" else 120000) // nch):
        k = rng.randint(3, 6)
        calls = []
        for nm in rng.sample(names, k):
            calls.append(("d", rng.choice("omt"), rng.choice([-1, -1, 0, 1]), nm))
            if rng.random() < 0.85:
                calls.append(("s", rng.choice([b"x", b"y", b"z", b"x"])))
        if rng.random() < 0.2:
            calls.insert(rng.randrange(len(calls)), ("move",))
        if rng.random() < 0.4:
            # a parse between the declarations: a later clashing letter must still make the parser refuse
            calls.insert(rng.randrange(1, len(calls) + 1), ("p",))
        cases.append({"calls": calls, "letters": True})
    # scale: the same calls on a parser that already holds many options (17 ... 300 in up to 3 groups)
    for _ in range((800 if tier == "quick" else 20000) // nch):
        n = rng.choice([15, 16, 17, 18, 33, 64, 65, 100, 257, 300])
        fill = [("d", rng.choice("omt"), rng.choice([-1, -1, 0, 1]), b"f%d" % i) for i in range(n)]
        tail = [rng.choice(BIG) for _ in range(rng.randint(2, 8))]
        cut = rng.choice([0, 0, 1, 2])
        cases.append({"calls": tail[:cut] + fill + tail[cut:], "big": True, "scale": n})
    return cases


class Table:
    """model of the declaration state"""

    def __init__(self):
        self.objs = []         # dicts: kind, name, group, short, env
        self.by_name = {}
        self.last = None       # index into objs of the object returned by the last successful decl
        self.moved = False

    def declare(self, kind, group, name):
        g = -1 if group == -2 else group
        o = self.by_name.get(name)
        if o is None:
            o = {"kind": kind, "name": name, "group": g, "short": None, "env": None, "id": len(self.objs)}
            self.objs.append(o)
            self.by_name[name] = o
            self.last = o
            return "ok", o, "fresh"
        rel = ("same-kind" if o["kind"] == kind else "cross-kind") + "-" + \
              ("same-group" if o["group"] == g else "other-group")
        if o["kind"] == kind and o["group"] == g:
            self.last = o
            return "ok", o, rel
        return "parser_error", None, rel

    def short(self, s):
        o = self.last
        if o is None:
            return "skip", "no-object"
        if o["short"] and o["short"] != s:
            return "parser_error", "change"
        if len(s) != 1:
            return "parser_error", "not-one-char"
        rel = "same" if o["short"] == s else "set"
        o["short"] = s
        return "ok", rel

    def env(self, e):
        o = self.last
        if o is None:
            return "skip", "no-object"
        if o["env"] and o["env"] != e:
            return "parser_error", "change"
        o["env"] = e
        return "ok", "set"


def _final_names(case):
    names = sorted({c[3] for c in case["calls"] if c[0] == "d"})
    if case.get("scale"):
        # spelling every filler name would cost O(n^2) parses: the two ends and the middle stand for the rest
        fillers = [x for x in names if x[:1] == b"f" and x[1:].isdigit()]
        keep = {b"f0", b"f%d" % (case["scale"] - 1), b"f%d" % (case["scale"] // 2), b"f16", b"f17"}
        names = [x for x in names if x not in fillers or x in keep]
    return names


def script(cid, case):
    L = ["CASE " + cid, "NEW " + hx(b"prog"), "GRPD 9"]
    slot = 0
    fetched = set()
    for ci, c in enumerate(case["calls"]):
        if c[0] == "d":
            _, kind, g, name = c
            # a group handle is fetched once and then reused (`auto& g = parser.group("x"); ... g.option(...)`),
            # in every third declaration it is fetched again from the parser
            if g >= 0 and (g not in fetched or ci % 3 == 2):
                L.append("GRP %d %s" % (g, hx(b"g%d" % (g + 1))))
                fetched.add(g)
            if g == -2 and ci % 2 == 0:
                g = 9     # the default group through a handle taken when the parser was created
            L.append("%s %d %d %s" % (KIND[kind], g, slot, hx(name)))
            L.append("LASTOK %d" % slot)
            slot += 1
        elif c[0] == "g":
            L.append("GRP %d %s" % (c[1], hx(b"g%d" % (c[1] + 1))))
            fetched.add(c[1])
        elif c[0] == "s":
            L.append("SN -1 " + hx(c[1]))
        elif c[0] == "e":
            L.append("EV -1 " + hx(c[1]))
        elif c[0] == "v":
            L.append("MV -1 " + hx(c[1]))
        elif c[0] == "p":
            L.append("PARSE A")
        elif c[0] == "move":
            L.append("MOVE")
        elif c[0] == "movea":
            L.append("MOVEA")
    L.append("OPTALL")
    # final phase: the parse lines are appended by the evaluation-independent rule below
    names = _final_names(case)
    letters = sorted({c[1] for c in case["calls"] if c[0] == "s" and len(c[1]) == 1})
    L.append("PARSE V")      # the std::vector<user_input> overload refuses an ambiguous parser, too
    L.append("PARSE A")
    for n in names:
        L.append("PARSE A " + hx(b"--" + n))
        L.append("PARSE A " + hx(b"--" + n + b"=v"))
    for l in letters:
        L.append("PARSE A " + hx(b"-" + l))
        L.append("PARSE A " + hx(b"-" + l + b"=v"))
    L.append("END")
    return "\n".join(L) + "\n"


def evaluate(case, lines, S):
    T = Table()
    it = iter(lines)

    def nxt(prefix):
        for l in it:
            if l.startswith(prefix + " "):
                return l
            if l.startswith(("LK ", "G ", "N ", "OA ")):
                continue
            raise RuntimeError("unexpected driver line %r while waiting for %s" % (l, prefix))
        raise RuntimeError("driver output ended while waiting for %s" % prefix)

    addr = {}
    if case.get("scale"):
        S.counters["scale:parser-holds>=%d-options" % max(x for x in [15, 17, 65, 257] if x <= case["scale"])] += 1
    interesting = False
    moved_then_decl = False
    calls_txt = [_show_call(c) for c in case["calls"]]
    for ci, c in enumerate(case["calls"]):
        suffix = ":after-move" if T.moved else ""
        if c[0] == "d":
            l = nxt("D")
            want, obj, rel = T.declare(c[1], c[2], c[3])
            S.counters["decl:" + rel + suffix] += 1
            if rel != "fresh":
                interesting = True
            if T.moved:
                moved_then_decl = True
            got = "ok" if l.startswith("D ok") else l[3:].strip()
            if got != want:
                S.violation("decl-call:%s:expected-%s-got-%s%s" % (rel, want, got, suffix),
                            "call #%d %s of %s: model says %s, implementation %s" %
                            (ci + 1, calls_txt[ci], calls_txt, want, got), case)
                return
            if want == "ok":
                a = l.split()[2]
                if obj["id"] in addr and addr[obj["id"]] != a:
                    S.violation("identity:re-declaration-returned-other-object" + suffix,
                                "call #%d %s of %s returned %s, first declaration returned %s" %
                                (ci + 1, calls_txt[ci], calls_txt, a, addr[obj["id"]]), case)
                    return
                if obj["id"] not in addr and a in addr.values():
                    S.violation("identity:distinct-options-share-an-object" + suffix,
                                "call #%d %s of %s returned the address of another option" %
                                (ci + 1, calls_txt[ci], calls_txt), case)
                    return
                addr[obj["id"]] = a
        elif c[0] in "sev":
            l = nxt("S")
            if c[0] == "s":
                want, rel = T.short(c[1])
                what = "short-name:" + rel
                if rel in ("change", "not-one-char", "same"):
                    interesting = True
            elif c[0] == "e":
                want, rel = T.env(c[1])
                what = "env:" + rel
            else:
                want = "skip" if T.last is None else ("parser_error" if c[1] == b"" else "ok")
                what = "metavar"
            S.counters[what + suffix] += 1
            got = "skip" if l == "S skip" else ("ok" if l.startswith("S ok") else l[3:].strip())
            if got == "ok" and "self" not in l:
                got = "ok-but-returned-other-object"
            if got != want:
                S.violation("%s:expected-%s-got-%s%s" % (what, want, got, suffix),
                            "call #%d %s of %s: model says %s, implementation %s" %
                            (ci + 1, calls_txt[ci], calls_txt, want, got), case)
                return
        elif c[0] == "p":
            l = nxt("P")
            S.counters["parse-between-declarations"] += 1
            seen, clash_now = set(), False
            for o in T.objs:
                if o["short"]:
                    clash_now = clash_now or o["short"] in seen
                    seen.add(o["short"])
            ob_ = parse_observed(l)
            if clash_now and ob_.exc != "parser_error":
                S.violation("letter-clash:parse-did-not-refuse" + suffix,
                            "two options share a letter at call #%d of %s but parse() gave %s" %
                            (ci + 1, calls_txt, l[:200]), case)
                return
            if not clash_now and ob_.exc == "parser_error":   # (a missing required option is a user-input error)
                S.violation("parse-between-declarations:refused-without-a-clash" + suffix,
                            "call #%d of %s: parse() of an empty vector gave %s" % (ci + 1, calls_txt, l[:200]), case)
                return
        elif c[0] in ("move", "movea"):
            l = nxt("MV")
            S.counters[c[0]] += 1
            if l != "MV ok":
                S.violation("move:threw", "MOVE in %s: %s" % (calls_txt, l), case)
                return
            T.moved = True
            addr = {}
    # final phase
    letters = {}
    clash = False
    for o in T.objs:
        if o["short"]:
            if o["short"] in letters:
                clash = True
            letters[o["short"]] = o
    if clash:
        interesting = True
        S.counters["parsers-with-letter-clash"] += 1
    if moved_then_decl:
        interesting = True
        S.counters["move-followed-by-declaration"] += 1
    decl = {"opts": [{"kind": o["kind"], "name": o["name"], "short": o["short"], "env": None,
                      "default": None, "optional": True, "rev": False} for o in T.objs],
            "pos": None, "greedy": False}
    names = _final_names(case)
    lts = sorted({c[1] for c in case["calls"] if c[0] == "s" and len(c[1]) == 1})
    lv = nxt("P")
    S.counters["final-parses"] += 1
    obv = parse_observed(lv)
    if clash and obv.exc != "parser_error":
        S.violation("letter-clash:parse-did-not-refuse:vector-overload",
                    "two options share a letter after %s but parse(std::vector<user_input>{}) gave %s" %
                    (calls_txt, lv[:200]), case)
        return
    if not clash and obv.exc == "parser_error":
        S.violation("vector-overload:refused-without-a-clash", "after %s: %s" % (calls_txt, lv[:200]), case)
        return
    vectors = [[]]
    for n in names:
        vectors += [[b"--" + n], [b"--" + n + b"=v"]]
    for l in lts:
        vectors += [[b"-" + l], [b"-" + l + b"=v"]]
    for v in vectors:
        l = nxt("P")
        S.counters["final-parses"] += 1
        ob = parse_observed(l)
        if clash:
            if ob.exc != "parser_error":
                S.violation("letter-clash:parse-did-not-refuse",
                            "two options share a letter after %s but parse(%r) gave %s" %
                            (calls_txt, v, l[:200]), case)
                return
            continue
        kind, suffix, desc, ex, ob = optoracle.judge(decl, {}, v, l)
        if kind not in ("agree-accept", "agree-reject"):
            S.violation("spelled:%s:%s%s" % (kind, suffix, ":after-move" if T.moved else ""),
                        "after %s, parse(%r): %s; observed %s" % (calls_txt, v, desc, l[:300]), case)
            return
    if interesting:
        S.distinct.add(optrun.h64(case["calls"]))
    if len(S.samples) < 4 and interesting and len(case["calls"]) >= 4 and (moved_then_decl or clash):
        S.samples.append({"calls": calls_txt, "letter_clash": clash,
                          "final_parses": len(vectors)})


def _show_call(c):
    if c[0] == "d":
        g = {-1: "parser", -2: "parser.group()"}.get(c[2], "group g%d" % (c[2] + 1))
        return "%s.%s(%s)" % (g, {"o": "option", "m": "multi_option", "t": "toggle"}[c[1]], c[3].decode())
    if c[0] == "s":
        return "short_name('%s')" % c[1].decode()
    if c[0] == "e":
        return "env('%s')" % c[1].decode()
    if c[0] == "v":
        return "metavar('%s')" % c[1].decode()
    if c[0] == "g":
        return "group(g%d)" % (c[1] + 1)
    if c[0] == "p":
        return "parse({})"
    return "MOVE" if c[0] == "move" else "MOVE-ASSIGN"


def finish(run, S, tier):
    need = ["parse-between-declarations", "scale:parser-holds>=17-options", "scale:parser-holds>=257-options", "decl:same-kind-same-group", "decl:same-kind-other-group", "decl:cross-kind-same-group",
            "decl:cross-kind-other-group", "parsers-with-letter-clash", "move-followed-by-declaration",
            "short-name:change", "short-name:same", "decl:same-kind-same-group:after-move"]
    for n in need:
        if S.counters.get(n, 0) == 0:
            run.inconc("never exercised: " + n)
    return {"move_followed_by_declaration": S.counters.get("move-followed-by-declaration", 0)}


def run(tier, replay=None):
    return optcheck.main("c13", tier, replay)
