"""C19 - environment and dlopen wrappers report faithfully and keep libraries mapped.
env: model dict against nitro::env::get (both overloads).  dl: every loader call of the header-only
wrapper is intercepted with ld --wrap and printed as an event; a refcount model (one instance per
successful dlopen, holders = dl objects + symbols + copies) decides for every dlclose whether it
was due, and `dlopen(RTLD_NOLOAD)` probes whether the library is mapped after every step."""
import random

import build
import driver
import optrun
import verdict
from driver import hx

PROP = "C19"
LEVEL = "exploration"
RULE = ("env: seeded histories of setenv/unsetenv/get over a small pool of names with values over arbitrary bytes "
        "(empty, blanks, '=', non-ASCII, 4 KiB), both get overloads and the implicit default; dl: seeded histories of "
        "length 30 over open (two test libraries, a missing library, the program itself), load (present / missing "
        "symbols), copy and assign of library objects, copy of symbols, call, destroy in any order, over 4 + 4 slots; "
        "distinct_nontrivial = distinct histories in which a symbol or copy outlived the library object it came from, "
        "or (env) a variable was read while set to the empty string")

EXPORTS = {"A": {b"nitro_verif_fa": lambda x: x + 1.0, b"nitro_verif_common": lambda x: x + 100.0},
           "B": {b"nitro_verif_fb": lambda x: x * 2.0, b"nitro_verif_common": lambda x: x + 200.0},
           "SELF": {b"nitro_verif_self_fn": lambda x: x - 1.0}}
SYMS = [b"nitro_verif_fa", b"nitro_verif_fb", b"nitro_verif_common", b"nitro_verif_self_fn", b"nitro_verif_missing",
        b"nitro_verif_fa", b"nitro_verif_fb", b"nitro_verif_common",
        b"_ZN5nitro5verif7missing" + b"I" * 230 + b"E", b"nitro_verif_missing_" + b"s" * 1000]
MISSING = b"/nonexistent/libnitro_verif_missing.so"
MISSING_BARE = b"nitro_verif_missing_bare"
# diagnostics beyond 256 / 1024 bytes
MISSING_NAMES = {"MISSING": MISSING, "MISSINGBARE": MISSING_BARE,
                 "MISSINGLONG": b"/nonexistent/" + b"d" * 300 + b"/libx.so",
                 "MISSINGHUGE": b"/nonexistent/" + b"/".join([b"e" * 200] * 6) + b".so"}


def gen_dl(rng, n):
    ops = []
    for _ in range(n):
        r = rng.random()
        if r < 0.22:
            ops.append(("OPEN", rng.randrange(4), rng.choice(["A", "A", "A", "B", "B", "B", "SELF", "MISSING", "MISSINGBARE", "MISSINGLONG", "MISSINGHUGE"])))
        elif r < 0.30:
            ops.append(("COPYDL", rng.randrange(4), rng.randrange(4)))
        elif r < 0.34:
            ops.append(("ASSIGNDL", rng.randrange(4), rng.randrange(4)))
        elif r < 0.37:
            ops.append(("HOLD", rng.randrange(2), rng.randrange(4)))
        elif r < 0.39:
            ops.append(("DROPH", rng.randrange(2)))
        elif r < 0.48:
            ops.append(("DROPDL", rng.randrange(4)))
        elif r < 0.68:
            ops.append(("LOAD", rng.randrange(4), rng.randrange(4), rng.choice(SYMS)))
        elif r < 0.74:
            ops.append(("COPYSYM", rng.randrange(4), rng.randrange(4)))
        elif r < 0.78:
            ops.append((rng.choice(["ASSIGNSYM", "MOVEASSIGNSYM"]), rng.randrange(4), rng.randrange(4)))
        elif r < 0.80:
            ops.append(("FNHOLD", rng.randrange(2), rng.randrange(4)))
        elif r < 0.815:
            ops.append(("FNDROP", rng.randrange(2)))
        elif r < 0.83:
            ops.append(("FNCALL", rng.randrange(2), rng.choice([0.0, 1.5, -2.0])))
        elif r < 0.88:
            ops.append(("DROPSYM", rng.randrange(4)))
        else:
            ops.append(("CALL", rng.randrange(4), rng.choice([0.0, 1.5, -2.0, 1e6])))
    return ops


def dl_script(cid, ops):
    L = ["CASE " + cid]
    for op in ops:
        if op[0] == "OPEN":
            L.append("OPEN %d %s" % (op[1], hx(MISSING_NAMES[op[2]]) if op[2] in MISSING_NAMES else op[2]))
        elif op[0] == "LOAD":
            L.append("LOAD %d %d %s" % (op[1], op[2], hx(op[3])))
        elif op[0] in ("CALL", "FNCALL"):
            L.append("%s %d %r" % (op[0], op[1], op[2]))
        else:
            L.append(" ".join(str(x) for x in op))
        L.append("PROBE")
    L.append("END")
    return "\n".join(L) + "\n"


class DlModel:
    def __init__(self):
        self.inst = []          # dicts: handle, lib, holders, closed
        self.dl = {}            # slot -> instance index
        self.sym = {}           # slot -> (instance index, function)
        self.hold_ = {}         # slot -> instance index (copies of dl::get())
        self.fn = {}            # slot -> (instance index, function): symbols stored in std::function objects
        self.outlived = False

    def hold(self, i):
        self.inst[i]["holders"] += 1

    def drop(self, i):
        self.inst[i]["holders"] -= 1


def judge_dl(ops, lines, S, case):
    """walk the driver output command by command"""
    M = DlModel()
    it = iter(lines)
    pending_events = []

    deferred = []      # diagnostics of the failures whose exception objects are read only at the end

    def next_result():
        ev = []
        for l in it:
            if l.startswith("EV "):
                ev.append(l.split(" "))
            else:
                return ev, l
        return ev, None

    def fail(key, msg):
        S.violation("dl:" + key, msg + " | history: %r" % (ops[:idx + 1],), case)

    def settle(events, what):
        """every dlclose event must close an instance with zero holders; every instance with zero
        holders must be closed by now"""
        for e in events:
            if e[1] == "dlclose":
                h = int(e[2])
                if h == 0:
                    fail("dlclose-of-null-handle", "dlclose(NULL) during " + what)
                    return False
                cands = [x for x in M.inst if x["handle"] == h and not x["closed"]]
                due = [x for x in cands if x["holders"] == 0]
                if not cands:
                    fail("dlclose-of-a-handle-that-is-not-open", "during " + what)
                    return False
                if not due:
                    fail("dlclose-while-a-holder-is-alive", "handle %d closed during %s although %d holders remain" %
                         (h, what, min(x["holders"] for x in cands)))
                    return False
                due[0]["closed"] = True
                S.counters["dlclose-events"] += 1
        for x in M.inst:
            if x["holders"] == 0 and not x["closed"]:
                fail("library-not-closed-after-last-holder-died", "instance of %s still open after %s" % (x["lib"], what))
                return False
            if x["holders"] < 0:
                raise RuntimeError("model bug: negative holders")
        return True

    idx = -1
    for idx, op in enumerate(ops):
        ev, res = next_result()
        if res is None:
            S.inconc.append("driver output ended early")
            return
        what = " ".join(str(x) for x in op)
        S.counters["op:" + op[0]] += 1
        opens = [e for e in ev if e[1] == "dlopen"]
        S.counters["loader-calls"] += len(ev)
        if op[0] == "OPEN":
            slot, lib = op[1], op[2]
            if slot in M.dl:
                M.drop(M.dl.pop(slot))
            if len(opens) != 1:
                fail("open-did-not-call-dlopen-once", what)
                return
            h = int(opens[0][3])
            if lib in MISSING_NAMES:
                want_name = hx(MISSING_NAMES[lib])
                if opens[0][2] != want_name:
                    fail("dlopen-called-with-another-name", "%s: dlopen(%s)" % (what, opens[0][2][:80]))
                    return
                errs = [e for e in ev if e[1] == "dlerror"]
                if not res.startswith("O !dl::exception "):
                    fail("missing-library-did-not-raise-dl-exception", "%s -> %s" % (what, res[:120]))
                    return
                f = res.split(" ")
                if f[2] == "DEFERRED" and errs and errs[-1][2] != "NULL":
                    deferred.append(errs[-1][2])     # read at the end of the history
                elif not errs or errs[-1][2] == "NULL" or f[2] != errs[-1][2]:
                    fail("exception-lacks-the-loader-diagnostic", "%s: exception carries %s, loader said %s" %
                         (what, f[2][:80], errs[-1][2][:80] if errs else None))
                    return
                S.counters["failed-opens"] += 1
                if len(f[2]) > 2 * 256:
                    S.counters["diagnostics-of-256-bytes-and-more"] += 1
                if any(not x["closed"] for x in M.inst):
                    S.counters["failed-opens-while-libraries-live"] += 1
            else:
                if res != "O ok" or h == 0:
                    fail("open-of-existing-library-failed", "%s -> %s" % (what, res[:160]))
                    return
                M.inst.append({"handle": h, "lib": lib, "holders": 1, "closed": False})
                M.dl[slot] = len(M.inst) - 1
        elif op[0] in ("COPYDL", "ASSIGNDL"):
            dst, src = op[1], op[2]
            ok = src in M.dl and (op[0] == "COPYDL" or dst in M.dl)
            if (res == "O ok") != ok:
                fail("copy-result", "%s -> %s" % (what, res))
                return
            if ok:
                i = M.dl[src]
                M.hold(i)
                if dst in M.dl:
                    M.drop(M.dl[dst])
                M.dl[dst] = i
        elif op[0] == "HOLD":
            hs, ds = op[1], op[2]
            if (res == "H ok") != (ds in M.dl):
                fail("hold-result", what + " -> " + res)
                return
            if ds in M.dl:
                i = M.dl[ds]
                M.hold(i)
                if hs in M.hold_:
                    M.drop(M.hold_[hs])
                M.hold_[hs] = i
        elif op[0] == "DROPH":
            if op[1] in M.hold_:
                M.drop(M.hold_.pop(op[1]))
        elif op[0] == "DROPDL":
            if op[1] in M.dl:
                i = M.dl.pop(op[1])
                M.drop(i)
                if any(s[0] == i for s in M.sym.values()) and M.inst[i]["holders"] > 0 and \
                        not any(d == i for d in M.dl.values()):
                    M.outlived = True
        elif op[0] == "LOAD":
            ss, ds, name = op[1], op[2], op[3]
            if ds not in M.dl:
                if res != "L skip":
                    fail("load-result", what + " -> " + res)
                    return
            else:
                i = M.dl[ds]
                lib = M.inst[i]["lib"]
                fn = EXPORTS[lib].get(name)
                errs = [e for e in ev if e[1] == "dlerror"]
                if fn is None:
                    if not res.startswith("L !dl::exception "):
                        fail("missing-symbol-did-not-raise-dl-exception", "%s in %s -> %s" % (name, lib, res[:120]))
                        return
                    f = res.split(" ")
                    if f[2] == "DEFERRED" and errs and errs[-1][2] != "NULL":
                        deferred.append(errs[-1][2])
                    elif not errs or errs[-1][2] == "NULL" or f[2] != errs[-1][2]:
                        fail("exception-lacks-the-loader-diagnostic", what)
                        return
                    S.counters["failed-lookups"] += 1
                    if len(f[2]) > 2 * 256:
                        S.counters["diagnostics-of-256-bytes-and-more"] += 1
                else:
                    if res != "L ok":
                        fail("present-symbol-raised", "%s in %s -> %s" % (name, lib, res[:200]))
                        return
                    M.hold(i)
                    if ss in M.sym:
                        M.drop(M.sym[ss][0])
                    M.sym[ss] = (i, fn)
        elif op[0] == "COPYSYM":
            dst, src = op[1], op[2]
            if (res == "L ok") != (src in M.sym):
                fail("copy-result", what + " -> " + res)
                return
            if src in M.sym:
                i, fn = M.sym[src]
                M.hold(i)
                if dst in M.sym:
                    M.drop(M.sym[dst][0])
                M.sym[dst] = (i, fn)
        elif op[0] == "FNHOLD":
            dst, src = op[1], op[2]
            if (res == "L ok") != (src in M.sym):
                fail("copy-result", what + " -> " + res)
                return
            if src in M.sym:
                i, fn = M.sym[src]
                M.hold(i)
                if dst in M.fn:
                    M.drop(M.fn[dst][0])
                M.fn[dst] = (i, fn)
                S.counters["symbols-stored-in-std::function"] += 1
        elif op[0] == "FNDROP":
            if op[1] in M.fn:
                M.drop(M.fn.pop(op[1])[0])
        elif op[0] == "FNCALL":
            if op[1] not in M.fn:
                if res != "C skip":
                    fail("call-result", what + " -> " + res)
                    return
            else:
                i, fn = M.fn[op[1]]
                if not any(d == i for d in M.dl.values()) and not any(s_[0] == i for s_ in M.sym.values()):
                    S.counters["calls-through-std::function-after-library-object-and-symbols-died"] += 1
                    M.outlived = True
                want = fn(op[2])
                if not res.startswith("C ok ") or float(res.split()[2]) != want:
                    fail("symbol-call-returned-wrong-value", "%s -> %s, expected %r" % (what, res, want))
                    return
        elif op[0] in ("ASSIGNSYM", "MOVEASSIGNSYM"):
            dst, src = op[1], op[2]
            ok = src in M.sym and dst in M.sym
            if (res == "L ok") != ok:
                fail("copy-result", what + " -> " + res)
                return
            if ok:
                i, fn = M.sym[src]
                M.hold(i)
                M.drop(M.sym[dst][0])
                M.sym[dst] = (i, fn)
        elif op[0] == "DROPSYM":
            if op[1] in M.sym:
                M.drop(M.sym.pop(op[1])[0])
        elif op[0] == "CALL":
            if op[1] not in M.sym:
                if res != "C skip":
                    fail("call-result", what + " -> " + res)
                    return
            else:
                i, fn = M.sym[op[1]]
                if not any(d == i for d in M.dl.values()):
                    S.counters["calls-after-the-library-object-died"] += 1
                    M.outlived = True
                want = fn(op[2])
                if not res.startswith("C ok ") or float(res.split()[2]) != want:
                    fail("symbol-call-returned-wrong-value", "%s -> %s, expected %r" % (what, res, want))
                    return
        if not settle(ev, what):
            return
        S.counters["max-holders"] = max(S.counters["max-holders"], max([x["holders"] for x in M.inst] or [0]))
        ev2, probe = next_result()
        if probe is None or not probe.startswith("P "):
            S.inconc.append("probe line missing")
            return
        mapped = dict(kv.split("=") for kv in probe.split()[1:])
        for lib in ("A", "B"):
            want = any(x["lib"] == lib and not x["closed"] for x in M.inst)
            if (mapped.get(lib) == "mapped") != want:
                fail("library-%s" % ("unmapped-while-a-holder-is-alive" if want else "still-mapped-after-last-holder-died"),
                     "after %s library %s is %s" % (what, lib, mapped.get(lib)))
                return
        S.counters["probes"] += 1
    # END: everything is dropped
    ev, res = next_result()
    if res is not None and res.startswith("X ok KD="):
        got = [x for x in res[len("X ok KD="):].split(",") if x]
        S.counters["exception-diagnostics-read-after-later-loader-calls"] += len(got)
        if got != deferred:
            bad = next((i for i in range(min(len(got), len(deferred))) if got[i] != deferred[i]), min(len(got), len(deferred)))
            idx = len(ops) - 1
            fail("kept-exception-lost-its-diagnostic",
                 "kept exception #%d read at the end of the history carries %s, the loader said %s when it was raised" %
                 (bad, (got[bad] if bad < len(got) else "nothing")[:80],
                  (deferred[bad] if bad < len(deferred) else "nothing")[:80]))
            return
    for x in M.inst:
        x["holders"] = 0
    M.dl.clear()
    M.sym.clear()
    M.hold_.clear()
    M.fn.clear()
    idx = len(ops) - 1
    if not settle(ev, "end of history"):
        return
    if M.outlived:
        S.distinct.add(optrun.h64(ops))
    if len(S.samples) < 2 and M.outlived:
        S.samples.append({"dl_history": [" ".join(str(x) for x in op) for op in ops],
                          "dlopen_instances": len(M.inst), "all_closed_exactly_once": True})


# ---------------------------------------------------------------------------------------
NAMES = [b"NITRO_VERIF_E%d" % i for i in range(5)] + [b"nitro verif e", b"NITRO_VERIF_\xc3\xa4", b"NITRO_VERIF_E0X"]
VALS = [b"", b" ", b"x", b"a=b", b"=", b"\xff\xfe", b"two words", b"E" * 4096, b"\t\n", b"0", b"default"]


def gen_env(rng, n):
    ops = []
    for _ in range(n):
        r = rng.random()
        name = rng.choice(NAMES)
        if r < 0.3:
            ops.append(("ENVSET", name, rng.choice(VALS)))
        elif r < 0.45:
            ops.append(("ENVUNSET", name))
        elif r < 0.7:
            ops.append(("GET", name, rng.choice(VALS)))
        elif r < 0.85:
            ops.append(("GET", name))
        else:
            ops.append(("GETND", name))
    return ops


def env_script(cid, ops):
    L = ["CASE " + cid] + ["ENVUNSET " + hx(n) for n in NAMES]
    for op in ops:
        L.append(" ".join([op[0]] + [hx(x) for x in op[1:]]))
    L += ["ENVUNSET " + hx(n) for n in NAMES] + ["END"]
    return "\n".join(L) + "\n"


def judge_env(ops, lines, S, case):
    env = {}
    lines = [l for l in lines if not l.startswith("EV ")][len(NAMES):]
    empty_read = False
    for op, l in zip(ops, lines):
        S.counters["op:" + op[0]] += 1
        if op[0] == "ENVSET":
            env[op[1]] = op[2]
        elif op[0] == "ENVUNSET":
            env.pop(op[1], None)
        else:
            name = op[1]
            state = "unset" if name not in env else ("set-empty" if env[name] == b"" else "set")
            S.counters["read:" + state] += 1
            if state == "set-empty":
                empty_read = True
            if op[0] == "GETND":
                if name in env:
                    want = "G ok " + hx(env[name])
                    if l != want:
                        S.violation("env:no-default-form-wrong-for-" + state, "get(%r, no_default) -> %s" % (name, l[:120]), case)
                        return
                elif not l.startswith("G !"):
                    S.violation("env:no-default-form-did-not-raise-when-unset", "get(%r, no_default) -> %s" % (name, l[:120]), case)
                    return
            else:
                default = op[2] if len(op) > 2 else b""
                want = "G ok " + hx(env.get(name, default))
                if l != want:
                    S.violation("env:wrong-value-for-%s-variable" % state,
                                "get(%r, %r) -> %s, expected %r" % (name, default, l[:120], env.get(name, default)), case)
                    return
    if empty_read:
        S.distinct.add(optrun.h64(ops))
    if len(S.samples) < 4 and empty_read and len(S.samples) >= 2:
        S.samples.append({"env_history": [" ".join(repr(x) if isinstance(x, bytes) and len(x) < 30 else str(x)[:30]
                                                   for x in op) for op in ops[:12]]})


def _work(arg):
    tier, seed, chunk, nch, exe, libs = arg[:6]
    memcheck = len(arg) > 6
    rng = random.Random("c19-%d-%d" % (seed, chunk))
    S = optrun.Summary()
    ndl = (5000 if tier == "quick" else 200000) // nch
    nenv = (2000 if tier == "quick" else 50000) // nch
    if memcheck:
        # a sample under valgrind memcheck on the uninstrumented build (use of uninitialised values)
        ndl, nenv = (80, 80) if tier == "quick" else (600, 400)
    cases = []
    for i in range(ndl):
        ops = gen_dl(rng, 30)
        if i % 8 == 0:
            # close one library completely, open ANOTHER one right afterwards (the loader tends to reuse the handle
            # address) and look up what the first one exported: the answer must come from the library that is open
            first, second = rng.choice([("A", "B"), ("B", "A"), ("A", "SELF"), ("B", "B")])
            name = rng.choice(sorted(EXPORTS[first]))
            s_, t_ = rng.randrange(4), rng.randrange(4)
            ops = [("OPEN", s_, first), ("LOAD", t_, s_, name), ("CALL", t_, 1.5), ("DROPSYM", t_), ("DROPDL", s_),
                   ("OPEN", s_, second), ("LOAD", t_, s_, name), ("CALL", t_, 2.5)] + ops[:22]
        if i % 8 == 4:
            # a std::function holding the symbol is the LAST owner: the library stays mapped and the call works
            lib = rng.choice(["A", "B"])
            name = rng.choice(sorted(EXPORTS[lib]))
            s_, t_, f_ = rng.randrange(4), rng.randrange(4), rng.randrange(2)
            ops = [("OPEN", s_, lib), ("LOAD", t_, s_, name), ("FNHOLD", f_, t_), ("DROPSYM", t_), ("DROPDL", s_),
                   ("FNCALL", f_, 1.5), ("FNDROP", f_)] + ops[:22]
        cases.append(("d%d_%d" % (chunk, i), "dl", ops))
    for i in range(nenv):
        ops = gen_env(rng, 12)
        cases.append(("e%d_%d" % (chunk, i), "env", ops))
    scripts = [(cid, dl_script(cid, ops) if kind == "dl" else env_script(cid, ops)) for cid, kind, ops in cases]
    res = driver.run_cases(exe, scripts, args=libs,
                           wrapper=driver.MEMCHECK if memcheck else ())
    if memcheck:
        S.counters["histories-under-memcheck"] += len(cases)
    if "__process__" in res:
        r = res["__process__"]
        S.violation("outside-case:" + r.key, r.report[-3000:], {"chunk": chunk})
    for cid, kind, ops in cases:
        r = res.get(cid)
        S.n += 1
        case = {"kind": kind, "ops": [list(o) for o in ops], "build": "plain" if "-plain-" in exe else "gasan"}
        if r is None:
            S.inconc.append("case not executed")
            continue
        if r.status == "skipped":
            S.counters["cases-skipped-after-enough-failed-cases"] += 1
            S.n -= 1
            continue
        if r.status != "ok":
            if r.status == "watchdog":
                S.inconc.append("watchdog")
            else:
                S.violation("%s:%s:%s" % (kind, "hang" if r.status == "timeout" else "crash", r.key), r.report[-3000:], case)
            continue
        S.counters["histories:" + kind] += 1
        try:
            (judge_dl if kind == "dl" else judge_env)(ops, r.lines, S, case)
        except Exception:
            import traceback
            S.inconc.append("oracle failure: " + traceback.format_exc()[-600:])
    return S


def secure_exec_phase(run_, S, seed):
    """the env histories once more in a process that runs in the loader's secure-execution mode
    (set-uid copy of the uninstrumented driver): 'returns its exact value whenever it is set' has no
    exception for privileged programs.  Needs root and a mount that honours set-id bits; otherwise the
    phase is skipped (recorded in the evidence, not a verdict)."""
    import os
    import shutil
    import stat
    if os.geteuid() != 0:
        return {"secure_exec_mode": "skipped: not root"}
    exe = build.build_exe("plain", ["envdl.cpp"], ["src/env/get.cpp"],
                          link=["-Wl,--wrap=dlopen,--wrap=dlclose,--wrap=dlsym,--wrap=dlerror", "-rdynamic", "-ldl"])
    d = os.path.join(build.CACHE, "tmp", "suid-%d" % os.getpid())
    os.makedirs(d, exist_ok=True)
    os.chmod(d, 0o755)
    copy = os.path.join(d, "envdl-setuid")
    try:
        shutil.copy(exe, copy)
        os.chown(copy, 65534, 65534)
        os.chmod(copy, 0o4755 | stat.S_ISGID)
        # every directory on the way must be searchable for the other uid
        rng = random.Random("c19-sec-%d" % seed)
        cases = [("s%d" % i, gen_env(rng, 12)) for i in range(300)]
        scripts = [("mode", "CASE mode\nMODE\nEND\n")] + [(cid, env_script(cid, ops)) for cid, ops in cases]
        res = driver.run_cases(copy, scripts)
        mode = res.get("mode")
        if mode is None or mode.status != "ok" or not mode.lines or "secure=1" not in mode.lines[0]:
            return {"secure_exec_mode": "skipped: set-id bits are not honoured here (%s)" %
                                        (mode.lines[0] if mode and mode.lines else "driver did not start")}
        n = 0
        for cid, ops in cases:
            r = res.get(cid)
            if r is None or r.status != "ok":
                continue
            n += 1
            before = len(S.viol)
            judge_env(ops, r.lines, S, {"kind": "env", "ops": [list(o) for o in ops], "secure_exec": True})
            for k in range(before, len(S.viol)):
                key, what, case = S.viol[k]
                S.viol[k] = (key + ":secure-execution-mode", what, case)
        return {"secure_exec_mode": mode.lines[0], "secure_exec_histories": n}
    except OSError as e:
        return {"secure_exec_mode": "skipped: %s" % e}
    finally:
        shutil.rmtree(d, ignore_errors=True)


def _build():
    exe = build.build_exe("gasan", ["envdl.cpp"], ["src/env/get.cpp"],
                          link=["-Wl,--wrap=dlopen,--wrap=dlclose,--wrap=dlsym,--wrap=dlerror", "-rdynamic", "-ldl"])
    a = build.build_shared("plain", "testlib_a.c", "libnitro_verif_a.so")
    b = build.build_shared("plain", "testlib_b.c", "libnitro_verif_b.so")
    return exe, ["A", a, "B", b]


def run(tier, replay=None):
    import json
    run_ = verdict.Run(PROP, tier, LEVEL, replay_of=replay)
    exe, libs = _build()
    S = optrun.Summary()
    if replay:
        with open(replay) as fh:
            c = verdict.unhex_json(json.load(fh))["case"]
        if c.get("phase") == "concurrent-independent-use":
            import mtindep
            mtindep.replay(run_, c, S.counters)
            return run_.finish(10, 1, RULE)
        ops = [tuple(o) for o in c["ops"]]
        if c.get("build") == "plain":
            exe = build.build_exe("plain", ["envdl.cpp"], ["src/env/get.cpp"],
                                  link=["-Wl,--wrap=dlopen,--wrap=dlclose,--wrap=dlsym,--wrap=dlerror", "-rdynamic", "-ldl"])
        script = dl_script("r", ops) if c["kind"] == "dl" else env_script("r", ops)
        res = driver.run_cases(exe, [("r", script)], args=libs)
        r = res.get("r")
        S.n = 1
        if r is None or r.status != "ok":
            S.violation("%s:crash:%s" % (c["kind"], r.key if r else "none"), r.report[-2000:] if r else "", c)
        else:
            (judge_dl if c["kind"] == "dl" else judge_env)(ops, r.lines, S, c)
        S.distinct |= {1, 2}
    else:
        n = 16 if tier == "quick" else 64
        # a quarter of the chunks is repeated on an uninstrumented build: only there does the allocator hand the
        # address of a closed library's handle to the next one (ASan's quarantine prevents it)
        plain = build.build_exe("plain", ["envdl.cpp"], ["src/env/get.cpp"],
                                link=["-Wl,--wrap=dlopen,--wrap=dlclose,--wrap=dlsym,--wrap=dlerror", "-rdynamic", "-ldl"])
        jobs = [(tier, run_.seed, c, n, exe, libs) for c in range(n)] + \
               [(tier, run_.seed, c, n, plain, libs) for c in range(0, n, 4)]
        import shutil
        if shutil.which("valgrind"):
            jobs.append((tier, run_.seed, 1, n, plain, libs, "memcheck"))
        for part in optrun.pmap(_work, jobs):
            S.merge(part)
    sec = {}
    if not replay:
        sec = secure_exec_phase(run_, S, run_.seed)
        # libraries opened, used and closed by 2-16 threads at once (each thread its own objects); env reads
        import mtindep
        mtindep.phase(run_, "dl", tier, S.counters)
    for key, what, case in S.viol:
        run_.violation(key, what, case)
    if S.counters.get("cases-skipped-after-enough-failed-cases", 0) and not S.viol:
        run_.inconc("cases were skipped after many failed cases, but no violation was recorded")
    for r in S.inconc[:3]:
        run_.inconc(r)
    for s in S.samples:
        run_.sample(s)
    run_.coverage["counters"] = dict(sorted(S.counters.items()))
    run_.coverage.update(sec)
    if not replay:
        for need in ("diagnostics-of-256-bytes-and-more", "calls-after-the-library-object-died",
                     "failed-opens-while-libraries-live", "failed-lookups",
                     "read:set-empty", "read:unset", "dlclose-events"):
            if S.counters.get(need, 0) == 0:
                run_.inconc("never exercised: " + need)
    build.prune()
    return run_.finish(S.n, len(S.distinct), RULE, loader_calls=S.counters.get("loader-calls", 0),
                       dlclose_events=S.counters.get("dlclose-events", 0), probes=S.counters.get("probes", 0))
