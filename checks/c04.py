"""C04 - bad user input always ends in the user-input error, under exact conditions.
Full reference model in both directions (accept <-> accept, reject <-> parsing_error and
nothing else), dynamic exception type recorded by the driver, sanitizers and a CPU-time
budget watching every parse."""
import random

import optcheck
import optgen
import optoracle
import optrun
from optmodel import TRUTHY, FALSY

PROP = "C04"
CONCURRENT = "parse"   # extra phase: lib/mtindep.py (parsers used by several threads at once)
LEVEL = "exploration"
RULE = ("hostile argument vectors (enumerated malformed tokens at every position, bundles / names / "
        "values / dash runs of 1 .. 131071 bytes, random byte strings over a dash-heavy alphabet) and "
        "environments against fixed and random correct declarations; accept/reject and the exception "
        "type are compared with the reference model in both directions; distinct_nontrivial = distinct "
        "(declaration, environment, vector) triples containing at least one token that is not a plain "
        "value (so the accept/reject boundary is actually exercised)")

FAM = optgen.family()
REASONS = ["malformed-token", "unknown-long", "unknown-letter", "bundle-undeclared-letter",
           "bundle-option-letter", "bundle-multi-letter", "bundle-with-value", "missing-value",
           "option-given-twice", "toggle-with-value", "no-prefix-not-reversible", "both-polarities",
           "too-many-positionals", "required-missing", "toggle-env-word"]

ALPHA = [b"-", b"-", b"-", b"=", b"=", b"a", b"b", b"v", b"o", b"i", b"q", b"z", b"n", b"o-", b"no-",
         b" ", b"\n", b"\t", b"\x80", b"\xff", b";", b"x", b"1", b"\\", b"'", b"\"", b"%s", b"{}"]
SIZES_Q = [300, 5000, 20000, 131071]
SIZES_T = [64, 300, 1000, 5000, 12000, 20000, 50000, 70000, 100000, 131071]

ENV_DECL = optgen.D([optgen.T(b"verbose", b"v", env=optgen.ENVP + b"T"),
                     optgen.T(b"color", rev=True, default=1, env=optgen.ENVP + b"C"),
                     optgen.O(b"out", b"o", env=optgen.ENVP + b"O", optional=False),
                     optgen.O(b"level", env=optgen.ENVP + b"L", default=b"3"),
                     optgen.M(b"inc", b"i", env=optgen.ENVP + b"M", optional=False),
                     optgen.M(b"lib", env=optgen.ENVP + b"N")],
                    pos=2, label="env-bound/required")
ENV_POOL = [b"x", b"--a=b", b"-5", b"-", b"--", b"---", b"-=", b"a=b", b"x;y", b";", b"a;", b";;a",
            b" ", b"\xc3\xa4", b"yes ", b" 1", b"2", b"tru", b"TRUE", b"no", b"0", b"On", b"maybe",
            b"-v", b"--out", b"a\nb", b"a,b;c", b"p:q"]


def nchunks(tier):
    return 32 if tier == "quick" else 256


def _big_tokens(decl, sizes):
    tl = [o["short"] for o in decl["opts"] if o["kind"] == "t" and o.get("short")]
    ol = [o for o in decl["opts"] if o["kind"] in "om"]
    out = []
    for n in sizes:
        if tl:
            out.append(("big-bundle", b"-" + (tl[0] * n)[:n]))
            out.append(("big-bundle-bad-tail", b"-" + (tl[0] * n)[:n - 1] + b"z"))
        if ol:
            out.append(("big-eq-value", b"--" + ol[0]["name"] + b"=" + b"y" * n))
            if ol[0].get("short"):
                out.append(("big-short-eq-value", b"-" + ol[0]["short"] + b"=" + b"-" * n))
        out.append(("big-long-name", b"--" + b"k" * n))
        out.append(("big-dash-run", b"-" * n))
        out.append(("big-value", b"w" * n))
        out.append(("big-eq-run", b"--" + b"=" * n))
    return out


def _rand_token(rng):
    n = rng.choice([0, 1, 1, 2, 2, 3, 3, 4, 5, 6, 8])
    return b"".join(rng.choice(ALPHA) for _ in range(n))


def gen(tier, seed, chunk, nch):
    cases = []
    # (a) enumerated: every pool token and every big token at every position of a short
    # benign vector
    k = 0
    sizes = SIZES_Q if tier == "quick" else SIZES_T
    decls = [FAM[0], FAM[4], FAM[8], FAM[13], FAM[21], ENV_DECL] if tier == "quick" else FAM + [ENV_DECL]
    for d in decls:
        benign = optgen.benign_tokens(d) or [b"x"]
        hostile = [(c, t) for c, t in optgen.flat_pool(optgen.token_pool(d))
                   if c.startswith(("malformed", "bundle", "long-undeclared", "short-undeclared",
                                    "no-", "long-toggle-eq", "short-toggle-eq", "long-near"))]
        # (bundle-highbyte and no-toggle-near-miss are included through the prefixes above)
        hostile += _big_tokens(d, sizes) if d in (FAM[0], ENV_DECL) or tier != "quick" else []
        base_env = {}
        if d is ENV_DECL:
            base_env = {optgen.ENVP + b"O": b"e", optgen.ENVP + b"M": b"e1;e2"}
        for cls, t in hostile:
            for posn in range(3):
                k += 1
                if k % nch != chunk:
                    continue
                vec = [benign[(k + j) % len(benign)] for j in range(2)]
                vec.insert(posn, t)
                if cls.startswith("big") and posn != 1 and len(t) > 20000:
                    continue
                for pre_dd in ((False, True) if cls.startswith(("malformed", "big-dash", "big-eq-run")) else (False,)):
                    v = list(vec)
                    if pre_dd:
                        v.insert(0, b"--")
                    cases.append({"decl": d, "env": base_env, "argv": v, "cls": cls})
    # (b) environment matrix for the env-bound declaration
    for i, e in enumerate(ENV_POOL):
        for j, var in enumerate([b"T", b"C", b"O", b"L", b"M", b"N"]):
            k += 1
            if k % nch != chunk:
                continue
            env = {optgen.ENVP + b"O": b"e", optgen.ENVP + b"M": b"e1"}
            env[optgen.ENVP + var] = e
            cases.append({"decl": ENV_DECL, "env": env, "argv": [], "cls": "env"})
            if var in (b"T", b"C"):
                for av in ([b"--no-color"], [b"--color"], [b"-v"], [b"--no-color", b"-v"]):
                    cases.append({"decl": ENV_DECL, "env": env, "argv": av, "cls": "env+toggle-on-command-line"})
    rng = random.Random("c04-%d-%d" % (seed, chunk))
    # (d) mostly valid vectors with exactly one defect of each rejection condition
    ndef = (6000 if tier == "quick" else 100000) // nch
    while ndef > 0:
        d = FAM[rng.randrange(len(FAM))] if rng.random() < 0.7 else optgen.rand_decl(rng, groups=True)
        for reason, v in optgen.defect_vectors(rng, d):
            cases.append({"decl": d, "env": {}, "argv": v, "cls": "one-defect"})
            ndef -= 1
    # (c) seeded random byte-string vectors
    nrand = (24000 if tier == "quick" else 560000) // nch
    for _ in range(nrand):
        r = rng.random()
        if r < 0.5:
            d = FAM[rng.randrange(len(FAM))]
        elif r < 0.6:
            d = ENV_DECL
        else:
            d = optgen.rand_decl(rng, env_rate=0.3, required_rate=0.2, groups=True)
        pool = optgen.flat_pool(optgen.token_pool(d))
        benign = optgen.benign_tokens(d) or [b"x"]
        n = rng.randint(0, 6)
        argv = []
        for _ in range(n):
            q = rng.random()
            if q < 0.35:
                argv.append(_rand_token(rng))
            elif q < 0.65:
                argv.append(rng.choice(pool)[1])
            else:
                argv.append(rng.choice(benign))
        env = {}
        for o in d["opts"]:
            if o.get("env") and rng.random() < 0.5:
                q = rng.random()
                if o["kind"] == "t" and q < 0.6:
                    env[o["env"]] = rng.choice(TRUTHY + FALSY)
                elif q < 0.8:
                    env[o["env"]] = rng.choice(ENV_POOL)
                else:
                    env[o["env"]] = _rand_token(rng).replace(b"\0", b"")
        mode = "A"
        if rng.random() < 0.2:
            mode = rng.choice(["V", "V", "W"])
        if rng.random() < 0.1:
            d = dict(d, moved=rng.choice(["MOVE", "MOVEA"]))
        case = {"decl": d, "env": env, "argv": argv, "cls": "random", "mode": mode}
        if rng.random() < 0.25:
            # the documented conditions decide also on a parser whose earlier calls were rejected half-way
            case["earlier"] = [[rng.choice(benign) if rng.random() < 0.6 else rng.choice(pool)[1]
                                for _ in range(rng.randint(1, 4))] for _ in range(rng.randint(1, 2))]
        cases.append(case)
    return cases


def script(cid, case):
    size = sum(len(t) for t in case["argv"])
    cpu = 10 if size < 4000 else (60 if size < 40000 else 240)
    return optoracle.single_script(cid, case, cpu=cpu)   # parses case["earlier"] first, if any


def crash_key(case, r):
    return ("hang:" if r.status == "timeout" else "crash:") + \
        (case.get("cls", "random") if r.status == "timeout" else r.key)


def evaluate(case, lines, S):
    line = optoracle.judged_line(lines)
    if case.get("earlier"):
        S.counters["judged-parse-on-a-parser-with-a-history"] += 1
    if line is None:
        S.inconc.append("no parse line")
        return
    d, env, argv = case["decl"], case.get("env") or {}, case["argv"]
    mode = case.get("mode", "A")
    kind, suffix, desc, ex, ob = optoracle.judge(d, env, argv, line, mode)
    S.counters["class:" + case.get("cls", "random")] += 1
    S.counters["mode:" + mode] += 1
    if any(not t or t[:1] == b"-" for t in argv) or env:
        S.distinct.add(optrun.h64(optgen.decl_id(d), sorted(env.items()), argv, mode))
    if ex.reject:
        S.counters["model-reject:" + ex.reject] += 1
    else:
        S.counters["model-accept"] += 1
    if kind == "accepted-unexpectedly":
        S.violation("accepted:" + suffix, "%s: %s" % (desc, optoracle.show(d, env, argv)), case)
    elif kind == "rejected-unexpectedly":
        S.violation("rejected:" + suffix, "%s: %s" % (desc, optoracle.show(d, env, argv)), case)
    elif kind == "wrong-exception":
        S.violation("exception:" + suffix, "%s: %s" % (desc, optoracle.show(d, env, argv)), case)
    elif kind == "agree-reject" and len(S.samples) < 4 and len(argv) >= 2 and case.get("cls") == "random":
        S.samples.append(dict(optoracle.show(d, env, argv), outcome="parsing_error", reason=ex.reject))


def decode_fuzz(data):
    """same mapping as harness/fuzz_opt.cpp"""
    if not data:
        return None
    d = data[0] % len(FAM)
    body = data[1:]
    toks = []
    cur = b""
    full = False
    for b in body:
        if b == 0:
            toks.append(cur)
            cur = b""
            if len(toks) == 8:
                full = True
                break
        else:
            cur += bytes([b])
    if not full and len(data) > 1:
        toks.append(cur)
    return {"decl": FAM[d], "env": {}, "argv": toks, "cls": "fuzz-corpus"}


def fuzz_phase(run, S):
    import glob
    import hashlib
    import os
    import shutil
    import subprocess
    import build
    import driver
    work = os.path.join(build.CACHE, "fuzz-c04")
    shutil.rmtree(work, ignore_errors=True)
    os.makedirs(os.path.join(work, "corpus"))
    os.makedirs(os.path.join(work, "inc"))
    inc = optrun.fuzz_decls_inc(FAM)
    with open(os.path.join(work, "inc", "fuzz_decls.inc"), "w") as fh:
        fh.write(inc)
    h = hashlib.sha256(inc.encode()).hexdigest()[:12]
    exe = build.build_exe("cfuzz", ["fuzz_opt.cpp"], build.OPTIONS_SRCS,
                          extra=["-I" + os.path.join(work, "inc"), "-DFUZZ_DECLS_HASH=0x" + h])
    # seed corpus and dictionary from the token pools
    toks = set()
    for i, d in enumerate(FAM):
        for cls, t in optgen.flat_pool(optgen.token_pool(d)):
            toks.add(t)
        with open(os.path.join(work, "corpus", "seed%d" % i), "wb") as fh:
            fh.write(bytes([i]) + b"\0".join([b"--" + d["opts"][0]["name"], b"x", b"--"]))
    with open(os.path.join(work, "dict"), "w") as fh:
        for t in sorted(toks):
            if 0 < len(t) < 40:
                fh.write('"%s"\n' % "".join("\\x%02x" % c for c in t))
    runs = int(os.environ.get("VERIF_FUZZ_RUNS", "2400000"))
    env = dict(os.environ)
    env.update(driver.SAN_ENV)
    env["ASAN_OPTIONS"] = env["ASAN_OPTIONS"] + ":quarantine_size_mb=8:detect_leaks=0"
    cmd = [exe, "corpus", "-runs=%d" % (runs // 8), "-max_len=96", "-seed=%d" % run.seed, "-jobs=8", "-workers=8",
           "-dict=dict", "-artifact_prefix=" + os.path.join(work, "art-"), "-print_final_stats=1", "-timeout=30"]
    try:
        p = subprocess.run(cmd, cwd=work, capture_output=True, timeout=3000)
    except subprocess.TimeoutExpired:
        run.inconc("fuzz campaign exceeded its wall-clock watchdog")
        return {}
    execs = 0
    for log in glob.glob(os.path.join(work, "fuzz-*.log")):
        txt = open(log, errors="replace").read()
        import re
        m = re.search(r"stat::number_of_executed_units:\s+(\d+)", txt)
        if m:
            execs += int(m.group(1))
    cases = []
    arts = sorted(glob.glob(os.path.join(work, "art-*")))
    for f in arts:
        c = decode_fuzz(open(f, "rb").read())
        if c:
            c["cls"] = "fuzz-artifact"
            cases.append(c)
    corpus = sorted(glob.glob(os.path.join(work, "corpus", "*")))
    for f in corpus:
        c = decode_fuzz(open(f, "rb").read())
        if c:
            cases.append(c)
    # replay everything the fuzzer kept through the driver and the full reference model
    import optcheck
    part = optcheck._work(("c04", "thorough", run.seed, 9000, 1, "gasan", cases))
    for key, what, case in part.viol:
        run.violation("fuzz:" + key, what, case)
    for r in part.inconc[:3]:
        run.inconc(r)
    return {"fuzz_executions": execs, "fuzz_corpus_files_replayed_through_model": len(corpus),
            "fuzz_artifacts": len(arts)}


def memcheck_phase(run, S):
    import build
    import driver
    import shutil
    if not shutil.which("valgrind"):
        run.inconc("valgrind not available")
        return {}
    exe = optrun.optdrv("plain")
    cases = gen("quick", run.seed, 0, 16)[:2000]
    scripts = [("m%d" % i, script("m%d" % i, c)) for i, c in enumerate(cases) if sum(len(t) for t in c["argv"]) < 3000]
    n = 0
    jobs = [scripts[i::16] for i in range(16)]
    for res in optrun.pmap(_memcheck_job, [(exe, j) for j in jobs]):
        for cid, r in res.items():
            n += 1
            if r.status == "crash":
                run.violation("memcheck:" + r.key, r.report[-3000:], {"memcheck_case": cid})
            elif r.status in ("timeout", "watchdog"):
                run.inconc("memcheck case %s: %s" % (cid, r.status))
    return {"memcheck_cases": n}


def _memcheck_job(arg):
    import driver
    exe, scripts = arg
    scripts = [(cid, s.replace("CASE %s 10" % cid, "CASE %s 600" % cid)) for cid, s in scripts]
    return driver.run_cases(exe, scripts, wrapper=list(driver.MEMCHECK))


def finish(run, S, tier):
    extra_phases = {}
    if tier == "thorough" and not run.replay_of:
        extra_phases.update(fuzz_phase(run, S))
        extra_phases.update(memcheck_phase(run, S))
    return dict(_finish(run, S, tier), **extra_phases)


def _finish(run, S, tier):
    missing = [r for r in REASONS if S.counters.get("model-reject:" + r, 0) == 0]
    if missing:
        run.inconc("rejection conditions never exercised: %s" % missing)
    if S.counters.get("model-accept", 0) == 0:
        run.inconc("no acceptable vector was generated")
    return {"rejection_conditions": len(REASONS) - len(missing),
            "model_accepts": S.counters.get("model-accept", 0)}


def run(tier, replay=None):
    tags = ["gasan"] if tier == "quick" or replay else ["gasan", "casan"]
    return optcheck.main("c04", tier, replay, tags=tags)
