"""C04 - bad user input always ends in the user-input error, under exact conditions.
Full reference model in both directions (accept <-> accept, reject <-> parsing_error and
nothing else), dynamic exception type recorded by the driver, sanitizers and a CPU-time
budget watching every parse."""
import random

import optcheck
import optgen
import optoracle
import optrun
from optmodel import TRUTHY, FALSY

PROP = "C04"
LEVEL = "exploration"
RULE = ("hostile argument vectors (enumerated malformed tokens at every position, bundles / names / "
        "values / dash runs of 1 .. 131071 bytes, random byte strings over a dash-heavy alphabet) and "
        "environments against fixed and random correct declarations; accept/reject and the exception "
        "type are compared with the reference model in both directions; distinct_nontrivial = distinct "
        "(declaration, environment, vector) triples containing at least one token that is not a plain "
        "value (so the accept/reject boundary is actually exercised)")

FAM = optgen.family()
REASONS = ["malformed-token", "unknown-long", "unknown-letter", "bundle-undeclared-letter",
           "bundle-option-letter", "bundle-multi-letter", "bundle-with-value", "missing-value",
           "option-given-twice", "toggle-with-value", "no-prefix-not-reversible", "both-polarities",
           "too-many-positionals", "required-missing", "toggle-env-word"]

ALPHA = [b"-", b"-", b"-", b"=", b"=", b"a", b"b", b"v", b"o", b"i", b"q", b"z", b"n", b"o-", b"no-",
         b" ", b"\n", b"\t", b"\x80", b"\xff", b";", b"x", b"1", b"\\", b"'", b"\"", b"%s", b"{}"]
SIZES_Q = [300, 5000, 20000, 131071]
SIZES_T = [64, 300, 1000, 5000, 12000, 20000, 50000, 70000, 100000, 131071]

ENV_DECL = optgen.D([optgen.T(b"verbose", b"v", env=optgen.ENVP + b"T"),
                     optgen.T(b"color", rev=True, default=1, env=optgen.ENVP + b"C"),
                     optgen.O(b"out", b"o", env=optgen.ENVP + b"O", optional=False),
                     optgen.O(b"level", env=optgen.ENVP + b"L", default=b"3"),
                     optgen.M(b"inc", b"i", env=optgen.ENVP + b"M", optional=False),
                     optgen.M(b"lib", env=optgen.ENVP + b"N")],
                    pos=2, label="env-bound/required")
ENV_POOL = [b"x", b"--a=b", b"-5", b"-", b"--", b"---", b"-=", b"a=b", b"x;y", b";", b"a;", b";;a",
            b" ", b"\xc3\xa4", b"yes ", b" 1", b"2", b"tru", b"TRUE", b"no", b"0", b"On", b"maybe",
            b"-v", b"--out", b"a\nb"]


def nchunks(tier):
    return 32 if tier == "quick" else 256


def _big_tokens(decl, sizes):
    tl = [o["short"] for o in decl["opts"] if o["kind"] == "t" and o.get("short")]
    ol = [o for o in decl["opts"] if o["kind"] in "om"]
    out = []
    for n in sizes:
        if tl:
            out.append(("big-bundle", b"-" + (tl[0] * n)[:n]))
            out.append(("big-bundle-bad-tail", b"-" + (tl[0] * n)[:n - 1] + b"z"))
        if ol:
            out.append(("big-eq-value", b"--" + ol[0]["name"] + b"=" + b"y" * n))
            if ol[0].get("short"):
                out.append(("big-short-eq-value", b"-" + ol[0]["short"] + b"=" + b"-" * n))
        out.append(("big-long-name", b"--" + b"k" * n))
        out.append(("big-dash-run", b"-" * n))
        out.append(("big-value", b"w" * n))
        out.append(("big-eq-run", b"--" + b"=" * n))
    return out


def _rand_token(rng):
    n = rng.choice([0, 1, 1, 2, 2, 3, 3, 4, 5, 6, 8])
    return b"".join(rng.choice(ALPHA) for _ in range(n))


def gen(tier, seed, chunk, nch):
    cases = []
    # (a) enumerated: every pool token and every big token at every position of a short
    # benign vector
    k = 0
    sizes = SIZES_Q if tier == "quick" else SIZES_T
    decls = [FAM[0], FAM[4], FAM[8], FAM[13], FAM[21], ENV_DECL] if tier == "quick" else FAM + [ENV_DECL]
    for d in decls:
        benign = optgen.benign_tokens(d) or [b"x"]
        hostile = [(c, t) for c, t in optgen.flat_pool(optgen.token_pool(d))
                   if c.startswith(("malformed", "bundle", "long-undeclared", "short-undeclared",
                                    "no-", "long-toggle-eq", "short-toggle-eq", "long-near"))]
        hostile += _big_tokens(d, sizes) if d in (FAM[0], ENV_DECL) or tier != "quick" else []
        base_env = {}
        if d is ENV_DECL:
            base_env = {optgen.ENVP + b"O": b"e", optgen.ENVP + b"M": b"e1;e2"}
        for cls, t in hostile:
            for posn in range(3):
                k += 1
                if k % nch != chunk:
                    continue
                vec = [benign[(k + j) % len(benign)] for j in range(2)]
                vec.insert(posn, t)
                if cls.startswith("big") and posn != 1 and len(t) > 20000:
                    continue
                for pre_dd in ((False, True) if cls.startswith(("malformed", "big-dash", "big-eq-run")) else (False,)):
                    v = list(vec)
                    if pre_dd:
                        v.insert(0, b"--")
                    cases.append({"decl": d, "env": base_env, "argv": v, "cls": cls})
    # (b) environment matrix for the env-bound declaration
    for i, e in enumerate(ENV_POOL):
        for j, var in enumerate([b"T", b"C", b"O", b"L", b"M", b"N"]):
            k += 1
            if k % nch != chunk:
                continue
            env = {optgen.ENVP + b"O": b"e", optgen.ENVP + b"M": b"e1"}
            env[optgen.ENVP + var] = e
            cases.append({"decl": ENV_DECL, "env": env, "argv": [], "cls": "env"})
    rng = random.Random("c04-%d-%d" % (seed, chunk))
    # (d) mostly valid vectors with exactly one defect of each rejection condition
    ndef = (6000 if tier == "quick" else 100000) // nch
    while ndef > 0:
        d = FAM[rng.randrange(len(FAM))] if rng.random() < 0.7 else optgen.rand_decl(rng)
        for reason, v in optgen.defect_vectors(rng, d):
            cases.append({"decl": d, "env": {}, "argv": v, "cls": "one-defect"})
            ndef -= 1
    # (c) seeded random byte-string vectors
    nrand = (24000 if tier == "quick" else 560000) // nch
    for _ in range(nrand):
        r = rng.random()
        if r < 0.5:
            d = FAM[rng.randrange(len(FAM))]
        elif r < 0.6:
            d = ENV_DECL
        else:
            d = optgen.rand_decl(rng, env_rate=0.3, required_rate=0.2)
        pool = optgen.flat_pool(optgen.token_pool(d))
        benign = optgen.benign_tokens(d) or [b"x"]
        n = rng.randint(0, 6)
        argv = []
        for _ in range(n):
            q = rng.random()
            if q < 0.35:
                argv.append(_rand_token(rng))
            elif q < 0.65:
                argv.append(rng.choice(pool)[1])
            else:
                argv.append(rng.choice(benign))
        env = {}
        for o in d["opts"]:
            if o.get("env") and rng.random() < 0.5:
                q = rng.random()
                if o["kind"] == "t" and q < 0.6:
                    env[o["env"]] = rng.choice(TRUTHY + FALSY)
                elif q < 0.8:
                    env[o["env"]] = rng.choice(ENV_POOL)
                else:
                    env[o["env"]] = _rand_token(rng).replace(b"\0", b"")
        mode = "A"
        if rng.random() < 0.15:
            mode = "V"
        cases.append({"decl": d, "env": env, "argv": argv, "cls": "random", "mode": mode})
    return cases


def script(cid, case):
    size = sum(len(t) for t in case["argv"])
    cpu = 10 if size < 4000 else (60 if size < 40000 else 240)
    return optoracle.single_script(cid, case, cpu=cpu)


def crash_key(case, r):
    return ("hang:" if r.status == "timeout" else "crash:") + \
        (case.get("cls", "random") if r.status == "timeout" else r.key)


def evaluate(case, lines, S):
    line = next((l for l in lines if l.startswith("P ")), None)
    if line is None:
        S.inconc.append("no parse line")
        return
    d, env, argv = case["decl"], case.get("env") or {}, case["argv"]
    mode = case.get("mode", "A")
    kind, suffix, desc, ex, ob = optoracle.judge(d, env, argv, line, mode)
    S.counters["class:" + case.get("cls", "random")] += 1
    S.counters["mode:" + mode] += 1
    if any(not t or t[:1] == b"-" for t in argv) or env:
        S.distinct.add(optrun.h64(optgen.decl_id(d), sorted(env.items()), argv, mode))
    if ex.reject:
        S.counters["model-reject:" + ex.reject] += 1
    else:
        S.counters["model-accept"] += 1
    if kind == "accepted-unexpectedly":
        S.violation("accepted:" + suffix, "%s: %s" % (desc, optoracle.show(d, env, argv)), case)
    elif kind == "rejected-unexpectedly":
        S.violation("rejected:" + suffix, "%s: %s" % (desc, optoracle.show(d, env, argv)), case)
    elif kind == "wrong-exception":
        S.violation("exception:" + suffix, "%s: %s" % (desc, optoracle.show(d, env, argv)), case)
    elif kind == "agree-reject" and len(S.samples) < 4 and len(argv) >= 2 and case.get("cls") == "random":
        S.samples.append(dict(optoracle.show(d, env, argv), outcome="parsing_error", reason=ex.reject))


def finish(run, S, tier):
    missing = [r for r in REASONS if S.counters.get("model-reject:" + r, 0) == 0]
    if missing:
        run.inconc("rejection conditions never exercised: %s" % missing)
    if S.counters.get("model-accept", 0) == 0:
        run.inconc("no acceptable vector was generated")
    return {"rejection_conditions": len(REASONS) - len(missing),
            "model_accepts": S.counters.get("model-accept", 0)}


def run(tier, replay=None):
    return optcheck.main("c04", tier, replay)
