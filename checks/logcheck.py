"""shared body of C05 and C10 (same generated programs, two projections of the event log)"""
from collections import Counter

import build
import logrun
import mtindep
import verdict


def main(prop, rule, tier, replay):
    import json
    run_ = verdict.Run(prop, tier, "exploration", replay_of=replay)
    run_.assume("programs are sampled from a generator; each generated program is exhaustive over its "
                "threshold vectors and the 6 compile-time minima")
    stats = Counter()
    if replay:
        with open(replay) as fh:
            c = json.load(fh)["case"]
        if c.get("phase") == "concurrent-independent-use":
            mtindep.replay(run_, c, stats)
            return run_.finish(10, 1, rule)
        seeds = [c["program_seed"]]
    else:
        n = 2 if tier == "quick" else 24
        seeds = [run_.seed * 1000 + i for i in range(n)]
    results = logrun.run_programs(seeds)
    # the first program(s) once more built by the second compiler (clang ASan+UBSan)
    results = results + logrun.run_programs(seeds[:1 if tier == "quick" else 6], tag="casan", minima=[0, 2, 5])
    import shutil
    if shutil.which("valgrind") and not replay:
        # one program (thorough: four) once more on the uninstrumented build under valgrind memcheck
        extra = logrun.run_programs(seeds[:1 if tier == "quick" else 4], tag="memcheck", minima=[0, 3])
        stats["program-runs-under-memcheck"] = len(extra)
        results = results + extra
    logrun.evaluate(prop, run_, results, stats)
    if not replay:
        # statements of one logger type issued by 2-16 threads at once, each thread with its own capture buffer:
        # what a thread's statements deliver (and how often its callables run) equals the serial result
        mtindep.phase(run_, "log", tier, stats)
    run_.coverage["counters"] = dict(stats)
    run_.coverage["programs"] = len(seeds)
    run_.coverage["compilations"] = len(results)
    build.prune()
    nontrivial = stats.get("enabled", 0) and stats.get("disabled-runtime", 0) and stats.get("disabled-compile-time", 0)
    if not replay and not nontrivial:
        run_.inconc("enabled / runtime-disabled / compile-time-disabled statements were not all observed")
    ev = stats.get("statement-executions", 0)
    return run_.finish(ev, ev if nontrivial else (2 if replay else 0), rule)
