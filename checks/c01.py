"""C01 - no command-line argument is silently ignored.  Projection of the reference model:
whenever the implementation accepts, the model must accept too and the result must equal the
model's accounting of every token and every bundled letter.  (Vectors the model accepts and
the implementation rejects are C04's business.)"""
import itertools
import random

import optcheck
import optgen
import optoracle
import optrun

PROP = "C01"
CONCURRENT = "parse"   # extra phase: lib/mtindep.py (parsers used by several threads at once)
LEVEL = "exploration"
RULE = ("argument vectors over one representative token per relation class (declared / undeclared "
        "long names, --no- forms, letters, all bundles of length 2-3 over {toggle letters, option "
        "letter, multi-option letter, undeclared letter}, =value forms, values, --, malformed) against "
        "a fixed family of 25 declarations; exhaustive up to the stated length, seeded random beyond; "
        "distinct_nontrivial = distinct (declaration, vector) pairs that the implementation ACCEPTED "
        "with a non-empty vector, i.e. cases in which the accounting oracle actually compared a result")

FAM = optgen.family()
EXH2 = [0, 3, 4, 8, 13, 16, 21, 24]   # declarations enumerated exhaustively to length 2 (thorough)


def nchunks(tier):
    return 32 if tier == "quick" else 256


def _all_jobs(tier):
    """deterministic exhaustive part, as (decl index, argv) generator"""
    for di, d in enumerate(FAM):
        pool = optgen.flat_pool(optgen.token_pool(d))
        for cls, t in pool:
            yield di, [t], [cls]
    if tier == "thorough":
        for di in EXH2:
            d = FAM[di % len(FAM)]
            pool = optgen.flat_pool(optgen.token_pool(d))
            for (c1, t1), (c2, t2) in itertools.product(pool, repeat=2):
                yield di % len(FAM), [t1, t2], [c1, c2]


def gen(tier, seed, chunk, nch):
    cases = []
    for k, (di, argv, classes) in enumerate(_all_jobs(tier)):
        if k % nch == chunk:
            cases.append({"decl": FAM[di], "argv": argv, "classes": classes})
    rng = random.Random("c01-%d-%d" % (seed, chunk))
    nrand = (20000 if tier == "quick" else 300000) // nch
    maxlen = 5 if tier == "quick" else 7
    for k in range(nrand):
        d = FAM[rng.randrange(len(FAM))] if rng.random() < 0.75 else optgen.rand_decl(rng, groups=True)
        pool = optgen.flat_pool(optgen.token_pool(d))
        benign = optgen.benign_tokens(d)
        # the token of interest at a random position among benign fillers
        n = rng.randint(2, maxlen)
        argv, classes = [], []
        k_int = rng.randint(1, 2)
        interest = set(rng.sample(range(n), min(k_int, n)))
        for i in range(n):
            if i in interest or not benign:
                cls, t = rng.choice(pool)
                argv.append(t)
                classes.append(cls)
            else:
                argv.append(rng.choice(benign))
                classes.append("benign")
        case = {"decl": d, "argv": argv, "classes": classes}
        if rng.random() < 0.25:
            # the parser has been used before: accepted vectors, vectors rejected half-way
            case["earlier"] = [[rng.choice(benign) if benign and rng.random() < 0.6 else rng.choice(pool)[1]
                                for _ in range(rng.randint(0, 4))] for _ in range(rng.randint(1, 2))]
        if rng.random() < 0.2:
            # parse(std::vector<user_input>) instead of parse(argc, argv); W: values built with user_input::verbatim()
            case["mode"] = rng.choice(["V", "V", "W"])
        if rng.random() < 0.1:
            d = dict(d, moved=rng.choice(["MOVE", "MOVEA"]))
            case["decl"] = d
        cases.append(case)
    return cases


def script(cid, case):
    return optoracle.single_script(cid, case)


def evaluate(case, lines, S):
    line = optoracle.judged_line(lines)
    if case.get("earlier"):
        S.counters["judged-parse-on-a-parser-with-a-history"] += 1
    if line is None:
        S.inconc.append("no parse line")
        return
    d, argv = case["decl"], case["argv"]
    kind, suffix, desc, ex, ob = optoracle.judge(d, {}, argv, line, case.get("mode", "A"))
    S.counters["mode:" + case.get("mode", "A")] += 1
    for c in set(case.get("classes", [])):
        S.counters["class:" + c] += 1
    if ob.exc is None:
        S.counters["accepted"] += 1
        if argv:
            S.distinct.add(optrun.h64(optgen.decl_id(d), argv))
    else:
        S.counters["rejected"] += 1
    if kind == "accepted-unexpectedly":
        S.violation("accepted:" + suffix,
                    "%s: %r was accepted, result %s" % (desc, argv, line[:500]),
                    case)
    elif kind == "wrong-result":
        S.violation("dropped-or-misaccounted:" + suffix, "%s for %r" % (desc, argv), case)
    elif kind == "agree-accept" and len(S.samples) < 4 and len(argv) > 2:
        S.samples.append(dict(optoracle.show(d, {}, argv), accounted={
            "toggles": {k.decode(): v for k, v in ex.t.items() if v},
            "options": {k.decode(): v.decode("latin-1") for k, v in ex.o.items() if v is not None and k in ex.prov},
            "multi": {k.decode(): [x.decode("latin-1") for x in v] for k, v in ex.m.items() if v},
            "positionals": [p.decode("latin-1") for p in ex.pos]}))


def finish(run, S, tier):
    want = set()
    for d in FAM:
        want |= set(optgen.token_pool(d).keys())
    missing = [c for c in sorted(want) if S.counters.get("class:" + c, 0) == 0]
    if missing:
        run.inconc("relation classes never exercised: %s" % missing)
    return {"relation_classes": len(want), "accepted": S.counters.get("accepted", 0),
            "rejected": S.counters.get("rejected", 0)}


def run(tier, replay=None):
    return optcheck.main("c01", tier, replay)
