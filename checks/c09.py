"""C09 - thread-safe sinks emit each concurrent record once and contiguously.
std::cout / std::cerr get a deliberately non-thread-safe stream buffer that detects concurrent
entry and yields inside the region the sink's lock must cover; an offline checker parses the
capture (grammar, exactly-once, per-thread order, count); the same workload runs under
ThreadSanitizer (gcc and clang).  Schedules are sampled, never exhausted."""
import json
import os
import random
import re
import subprocess
from collections import Counter

import build
import driver
import optrun
import verdict

PROP = "C09"
LEVEL = "exploration"
RULE = ("runs of 2-16 threads x 200-2000 records of 1-4096 (a third of the runs: 1-12000) bytes through (1) one logger on stdout_mt, (2) two "
        "logger types sharing stdout_mt, (3) sequence<stdout_mt, StdErrThreaded>, (4) StdErrThreaded, with seeded "
        "delays between statements and inside the stream buffer's write path, on a plain build (overlap detector + "
        "offline capture checker; in half of the runs the sinks have been used with another buffer before), gcc/clang ThreadSanitizer builds and (thorough) an ASan build; "
        "distinct_nontrivial = distinct thread-order sequences observed in the captures (one per run unless two "
        "runs interleaved identically), counted only for runs in which the buffer was entered while another "
        "thread was inside a log statement")

TOPO = {1: "one-logger-stdout_mt", 2: "two-loggers-sharing-stdout_mt", 3: "sequence-stdout_mt+stderr_mt",
        4: "one-logger-stderr_mt"}


def plan(tier, seed):
    rng = random.Random("c09-%d" % seed)
    runs = []

    def add(tag, n):
        for i in range(n):
            topo = 1 + (i % 4)
            threads = rng.choice([2, 3, 4, 8, 12, 16])
            records = rng.choice([200, 400, 800]) if tag not in ("plain", "cplain") else rng.choice([200, 500, 1000, 2000])
            maxlen = rng.choice([16, 256, 4096])
            if i % 3 == 0:
                # records longer than a page / a typical stdio buffer (block-wise writers show here)
                maxlen, records, threads = 12000, 200, min(threads, 8)
            delay = rng.choice([0, 50, 200, 500])
            runs.append((tag, topo, threads, records, maxlen, rng.randrange(1, 10 ** 9), delay, 0))

    def add_rounds(tag, n):
        # many short rounds with a completeness check at every quiescent point (all threads at a barrier)
        for i in range(n):
            topo = [4, 1, 4, 2, 4, 3][i % 6]
            threads = rng.choice([2, 3, 4])
            per_round = rng.choice([1, 2, 3])
            records = per_round * (4000 if tag in ("plain", "cplain") else 1200)
            runs.append((tag, topo, threads, records, rng.choice([8, 16, 24]), rng.randrange(1, 10 ** 9),
                         rng.choice([0, 0, 20]), per_round))

    if tier == "quick":
        add("gtsan", 8)
        add("plain", 24)
        add("cplain", 8)       # clang, -O2: another order of evaluation, another code layout
        add("ctsan", 4)
        add_rounds("plain", 12)
        add_rounds("gtsan", 2)
        add_rounds("cplain", 4)
    else:
        add("gtsan", 60)
        add("ctsan", 32)
        add("plain", 400)
        add("gasan", 20)
        add_rounds("plain", 120)
        add_rounds("gtsan", 12)
        add_rounds("ctsan", 6)
    return runs


def _run(arg):
    exe, r = arg
    tag, topo, threads, records, maxlen, seed, delay, per_round = r
    env = dict(os.environ)
    env.update(driver.SAN_ENV)
    try:
        p = subprocess.run([exe, str(topo), str(threads), str(records), str(maxlen), str(seed), str(delay),
                            str(per_round)],
                           capture_output=True, env=env, timeout=900)
    except subprocess.TimeoutExpired:
        return r, None, "", "", True
    return r, p.returncode, p.stdout.decode("latin-1"), p.stderr.decode("latin-1", "replace"), False


def evaluate(run_, r, rc, out, err, wd, stats, orders, samples):
    tag, topo, threads, records, maxlen, seed, delay, per_round = r
    case = {"build": tag, "topology": topo, "threads": threads, "records": records, "maxlen": maxlen,
            "seed": seed, "inner_delay_permille": delay, "records_per_round": per_round}
    if wd:
        run_.inconc("wall-clock watchdog fired for %r" % (r,))
        return
    stats["runs:" + tag] += 1
    stats["runs:" + TOPO[topo]] += 1
    vs = [l[2:] for l in out.split("\n") if l.startswith("V ")]
    for v in vs:
        name = v.split(" ")[0]
        run_.violation("%s:%s" % (name, TOPO[topo]), "%s (build %s, %d threads x %d records)" %
                       (v, tag, threads, records), case)
    m = re.search(r"RESULT (.*)", out)
    if ("ThreadSanitizer" in err) or (rc not in (0, 1)) or (m is None):
        key = driver.classify_report(err, rc)
        if "ThreadSanitizer" in err:
            stats["tsan-reports"] += 1
        run_.violation("%s:%s" % (key, TOPO[topo]), "build %s: %s" % (tag, err[-3000:]), case)
        return
    kv = dict(x.split("=") for x in m.group(1).split())
    stats["records"] += int(kv["records"])
    stats["buffer-entries"] += int(kv["entries"])
    stats["entries-while-another-thread-was-logging"] += int(kv["contended"])
    stats["thread-switches-in-output"] += int(kv["switches"])
    stats["quiescent-points-checked"] += int(kv.get("rounds", 0))
    stats["runs-with-sinks-used-before-the-capture-buffer-was-installed"] += int(kv.get("warmed", 0))
    if int(kv["contended"]) > 0 and not vs:
        orders.add(kv["order_hash"])
    if not vs and len(samples) < 4 and stats["runs:" + TOPO[topo]] == 1:
        o = re.search(r"ORDER (\S*)", out)
        samples.append(dict(case, records_captured=int(kv["records"]), buffer_entries=int(kv["entries"]),
                            contended_entries=int(kv["contended"]), thread_switches=int(kv["switches"]),
                            first_60_records_by_thread=o.group(1) if o else ""))


def run(tier, replay=None):
    run_ = verdict.Run(PROP, tier, LEVEL, replay_of=replay)
    run_.assume("schedules are sampled by the OS scheduler and perturbed by injected delays; 'all interleavings' "
                "is out of reach for this technique")
    run_.assume("ThreadSanitizer sees nitro and the harness, not the uninstrumented libstdc++")
    stats, orders, samples = Counter(), set(), []
    if replay:
        with open(replay) as fh:
            c = json.load(fh)["case"]
        runs = [(c["build"], c["topology"], c["threads"], c["records"], c["maxlen"], c["seed"],
                 c["inner_delay_permille"], c.get("records_per_round", 0))] * 10
    else:
        runs = plan(tier, run_.seed)
    exes = {tag: build.build_exe(tag, ["mtlog.cpp"]) for tag in sorted({r[0] for r in runs})}
    for res in optrun.pmap(_run, [(exes[r[0]], r) for r in runs]):
        evaluate(run_, *res, stats, orders, samples)
    for s in samples:
        run_.sample(s)
    run_.coverage["counters"] = dict(stats)
    run_.coverage["builds"] = sorted(exes)
    if not replay:
        if stats.get("entries-while-another-thread-was-logging", 0) == 0:
            run_.inconc("the buffer was never entered while another thread was logging: no contention observed")
        if stats.get("runs-with-sinks-used-before-the-capture-buffer-was-installed", 0) == 0:
            run_.inconc("no run had used the sinks before the capture buffers were installed")
        for t in TOPO.values():
            if stats.get("runs:" + t, 0) == 0:
                run_.inconc("topology never run: " + t)
    build.prune()
    return run_.finish(len(runs), len(orders) if not replay else 2, RULE,
                       records=stats.get("records", 0), distinct_thread_orders=len(orders),
                       tsan_reports=stats.get("tsan-reports", 0),
                       contended_entries=stats.get("entries-while-another-thread-was-logging", 0),
                       quiescent_points_checked=stats.get("quiescent-points-checked", 0))
