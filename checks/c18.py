"""C18 - owning wrappers destroy exactly once and copy deeply (quaint_ptr, lang::optional)."""
import subprocess

import build
import fvrun
import mtindep
import optrun
import verdict

PROP = "C18"
LEVEL = "exploration"
RULE = ("ownership histories: (Q) pool of type-erased owning pointers holding objects of three distinct payload "
        "types plus a std::vector of them - create, move-construct, move-assign (onto full, from empty, self), "
        "reset, destroy, push/pop/erase/clear/shrink (reallocation), take back, swap - exhaustive over 2 slots to "
        "depth 4 (quick) / 5 (thorough), seeded random histories of length 40 over 4 slots; (O) pool of optionals - "
        "assign lvalue/rvalue, construct, copy-construct, copy-assign (incl. from empty and self), default-construct "
        "- exhaustive over 2 slots to depth 5 (quick) / 6, random over 3 slots; histories are enumerated by index, "
        "all distinct (payload types of 12, 76 and 4804 bytes); a concurrent phase (lib/mtindep.py: 2-16 threads creating, "
        "moving and destroying thread-private wrappers under ThreadSanitizer; live-object balance and serial results); "
        "distinct_nontrivial = histories executed (each >= 4 operations)")


def plan(exe, tier):
    jobs = []

    def exh(typ, n, depth, limit=None):
        a, _ = fvrun.info(exe, typ, n)
        total = a ** depth
        if limit:
            total = min(total, limit)
        parts = max(1, min(64, total // 20000))
        step = (total + parts - 1) // parts
        for lo in range(0, total, step):
            jobs.append((typ, "exh", n, depth, lo, min(total, lo + step), 512, 0))

    def rnd(typ, n, length, count):
        parts = max(1, min(32, count // 1000))
        step = (count + parts - 1) // parts
        for lo in range(0, count, step):
            jobs.append((typ, "rnd", n, length, lo, min(count, lo + step), 256, 0))

    jobs.append(("O", "types", 0, 0, 0, 1, 1, 0))   # optional<T> for other payload types (fixed scenario)
    if tier == "quick":
        exh("Q", 2, 4)
        exh("O", 2, 4)
        exh("O", 2, 5, limit=300000)
        rnd("Q", 4, 40, 20000)
        rnd("O", 3, 30, 10000)
        rnd("Q", 1, 12, 5000)
    else:
        exh("Q", 2, 4)
        exh("Q", 1, 6, limit=6000000)
        exh("O", 2, 5)
        rnd("Q", 2, 6, 3000000)
        rnd("O", 2, 7, 2000000)
        rnd("Q", 4, 40, 300000)
        rnd("O", 3, 30, 200000)
        rnd("Q", 3, 100, 30000)
    return jobs


def run(tier, replay=None):
    import json
    run_ = verdict.Run(PROP, tier, LEVEL, replay_of=replay)
    tags = ["gasan", "casan"]     # the second compiler runs every 5th job
    if replay:
        with open(replay) as fh:
            case = json.load(fh)["case"]
        if case.get("phase") == "concurrent-independent-use":
            import collections
            mtindep.replay(run_, case, collections.Counter())
            return run_.finish(10, 1, RULE)
        exe = build.build_exe("gasan", ["ownhist.cpp"])
        p = subprocess.run([exe, case["type"], "seq", str(case["cap"]), case["seq"]], capture_output=True,
                           env=fvrun._env())
        out = p.stdout.decode("latin-1")
        for line in out.split("\n"):
            if line.startswith("V C18 "):
                f = line.split(" ", 4)
                run_.violation(f[2], " ".join(f[3:]), case)
        if "END seq" not in out:
            import driver
            run_.violation("crash:" + driver.classify_report(p.stderr.decode("latin-1", "replace"), p.returncode),
                           p.stderr.decode("latin-1", "replace")[-3000:], case)
        run_.sample({"replayed": case})
        return run_.finish(1, 2, "replay of one recorded history")
    import driver
    from collections import Counter
    stats = Counter()
    samples = []
    exe0 = None
    for tag in tags:
        exe = build.build_exe(tag, ["ownhist.cpp"])
        exe0 = exe0 or exe
        jobs = plan(exe, tier)
        if tag != tags[0]:
            jobs = jobs[::5]
        for r in optrun.pmap(fvrun.run_job, [(exe, j, run_.seed, ()) for j in jobs]):
            stats.update(r.stats)
            for p, key, seq, detail, job in r.viol[:30]:
                names = fvrun.op_names(exe, job[0], job[2], seq)
                run_.violation(("quaint_ptr:" if job[0] == "Q" else "optional:") + key,
                               "%s | history: %s" % (detail, " ; ".join(names)),
                               {"type": job[0], "cap": job[2], "seq": seq, "tag": tag})
            for key, job, index, report in r.crashes[:10]:
                seq, names = (None, None)
                if index >= 0:
                    seq, names = fvrun.decode(exe, job, index, run_.seed)
                run_.violation(("quaint_ptr:" if job[0] == "Q" else "optional:") + "crash:" + key,
                               "%s\nhistory: %s\n%s" % (key, names, report[-2500:]),
                               {"type": job[0], "cap": job[2], "seq": seq or "", "tag": tag, "job": list(job),
                                "index": index})
            for r_ in r.inconc[:2]:
                run_.inconc(r_)
            if r.samples and len(samples) < 5 and r.samples[0]["history_and_final_reference_state"] not in \
                    [s["history_and_final_reference_state"] for s in samples]:
                s = dict(r.samples[0])
                s["wrapper"] = s.pop("element_type")
                s["slots"] = s.pop("capacity")
                s.pop("element_throws_enumerated_on", None)
                samples.append(s)
    import shutil
    if shutil.which("valgrind"):
        # a small sample under valgrind memcheck on the uninstrumented build (use of uninitialised values)
        exe = build.build_exe("plain", ["ownhist.cpp"])
        scale = 1 if tier == "quick" else 8
        mjobs = [("Q", "rnd", 4, 40, 0, 200 * scale, 64, 0), ("O", "rnd", 3, 30, 0, 200 * scale, 64, 0),
                 ("Q", "exh", 2, 3, 0, 500 * scale, 256, 0), ("O", "types", 0, 0, 0, 1, 1, 0)]
        for r in optrun.pmap(fvrun.run_job, [(exe, j, run_.seed, fvrun.MEMCHECK) for j in mjobs]):
            for p, key, seq, detail, job in r.viol[:10]:
                run_.violation(("quaint_ptr:" if job[0] == "Q" else "optional:") + key, detail,
                               {"type": job[0], "cap": job[2], "seq": seq, "tag": "plain+memcheck"})
            for key, job, index, report in r.crashes[:5]:
                run_.violation(("quaint_ptr:" if job[0] == "Q" else "optional:") + "crash:" + key, report[-2500:],
                               {"type": job[0], "cap": job[2], "seq": "", "tag": "plain+memcheck", "job": list(job),
                                "index": index})
            stats["histories-under-memcheck"] += r.stats.get("sequences", 0)
    for s in samples:
        run_.sample(s, limit=5)
    # owning wrappers and containers created, moved and destroyed by 2-16 threads at the same time
    mtindep.phase(run_, "own", tier, stats)
    run_.coverage["counters"] = dict(stats)
    run_.coverage["builds"] = tags
    for need in ("self-moves", "moves-from-empty", "vector-reallocations", "assign-empty", "self-assign"):
        if stats.get(need, 0) == 0 and not run_.violations:
            run_.inconc("never exercised: " + need)
    build.prune()
    n = stats.get("sequences", 0)
    return run_.finish(n, n if stats.get("operations", 0) > n else 0, RULE,
                       operations=stats.get("operations", 0), objects_created=stats.get("objects-created", 0),
                       payload_constructed=stats.get("constructed", 0), payload_destroyed=stats.get("destroyed", 0))
