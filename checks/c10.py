"""C10 - a disabled log statement costs nothing and evaluates nothing lazily."""
import logcheck

RULE = ("same generated programs as C05, other projection: for every statement execution the LAZY (callable "
        "invoked) and INS (inserted object's operator<< ran) events must be exactly empty when the statement is below "
        "the compile-time minimum or rejected by the runtime filter, and exactly one per streamed callable / object in "
        "stream order, before the formatter runs, when it is emitted; every program prints "
        "is_same<decltype(L::sev()), null_stream> for 6 severities per logger, compared with sev < minimum; "
        "distinct_nontrivial = statement executions (all distinct tuples)")


def run(tier, replay=None):
    return logcheck.main("C10", RULE, tier, replay)
