"""C03 - value sources are ranked: command line, then environment, then default.
Exhaustive source matrix x environment content pool, judged by model step 8 (value, provided,
required/optional outcome) in both directions."""
import random

import optcheck
import optgen
import optoracle
import optrun
from optmodel import TRUTHY, FALSY

PROP = "C03"
CONCURRENT = "parse"   # extra phase: lib/mtindep.py (parsers used by several threads at once)
LEVEL = "exploration"
RULE = ("full matrix {given on the command line or not} x {env unbound, unset, set empty, set to a "
        "string} x {default or none} x {optional or required} x {option, multi-option, toggle} x "
        "environment content pool (option-like strings, `=`, `;`, blanks, non-ASCII, 15 ... 70000 bytes, 300 elements, the 30 toggle "
        "words), thorough adds random environment strings and two options sharing one variable; "
        "distinct_nontrivial = distinct (matrix cell, environment content) pairs in which the "
        "environment variable was bound and set non-empty, i.e. the ranking was actually contested")

CONTENT = [b"plain", b"--a=b", b"-5", b"-", b"--", b"---", b"-=", b"a=b", b"=", b"x;y", b";", b"a;", b";;a",
           b"a;;b", b" ", b" x ", b"\xc3\xa4\xff", b"E" * 4096, b"--opt", b"-o", b"--no-tog", b"a\nb",
           b"-v;--w;x", b"0", b"1", b"a,b", b"x;y,z", b"a:b", b"a b;c d", b"|", b"dflt", b"d1;d2", b"d1", b"3",
           b"F" * 255, b"G" * 256, b"H" * 257, b"a;" + b"L" * 256 + b";b", b"x" * 255 + b";" + b"y" * 300 + b";z",
           b";".join(b"e%d" % i for i in range(300)), b"S" * 15, b"S" * 16, b"S" * 17, b"B" * 70000,
           b";" * 300] + TRUTHY + FALSY
ENVN = optgen.ENVP + b"X"


def nchunks(tier):
    return 16 if tier == "quick" else 128


def eclass(e):
    if e is None:
        return "unset"
    if e == b"":
        return "empty"
    if e in TRUTHY or e in FALSY:
        return "toggle-word"
    if e.startswith(b"-"):
        return "leading-dash"
    if b";" in e:
        return "semicolon"
    if b"=" in e:
        return "has-eq"
    if len(e) >= 1000:
        return "long"
    return "other"


def _cells():
    """(kind, given, envstate, default, optional)"""
    for kind in "omt":
        for given in (False, True, "off") if kind == "t" else (False, True):
            for envstate in ("unbound", "unset", "empty", "string"):
                defaults = {"o": [None, b"dflt", b""], "m": [None, [], [b"d1", b"d2"]],
                            "t": [None, 0, 1, 3]}[kind]
                for default in defaults:
                    for optional in ((True, False) if kind != "t" else (True,)):
                        yield kind, given, envstate, default, optional


def _decl(kind, default, optional, bound, rev=True, env2=False):
    if kind == "o":
        u = optgen.O(b"opt", b"o", default=default, optional=optional, env=ENVN if bound else None)
    elif kind == "m":
        u = optgen.M(b"opt", b"o", default=default, optional=optional, env=ENVN if bound else None)
    else:
        u = optgen.T(b"opt", b"o", rev=rev, default=default, env=ENVN if bound else None)
    opts = [u, optgen.T(b"other", b"x")]
    if env2:
        opts.append(optgen.O(b"second", b"s", optional=True, env=ENVN))
        opts.append(optgen.M(b"third", optional=True, env=ENVN))
    return optgen.D(opts, pos=1)


def _given_argv(rng, kind, given):
    if not given:
        return [[], [b"-x"], [b"p"]][rng.randrange(3)]
    if given == "off":
        return [b"--no-opt"]
    if kind == "t":
        return rng.choice([[b"--opt"], [b"-o"], [b"-oo"], [b"-xo"]])
    if kind == "o":
        return rng.choice([[b"--opt", b"cli"], [b"--opt=cli"], [b"-o=cli"], [b"-o", b"cli"], [b"--opt="]])
    return rng.choice([[b"--opt", b"c1", b"-o=c2"], [b"--opt=c1"], [b"-o", b""]])


def gen(tier, seed, chunk, nch):
    rng = random.Random("c03-%d-%d" % (seed, chunk))
    cases = []
    k = 0
    for cell in _cells():
        kind, given, envstate, default, optional = cell
        contents = CONTENT if envstate == "string" else [None]
        for e in contents:
            k += 1
            if k % nch != chunk:
                continue
            env = {}
            if envstate == "empty":
                env[ENVN] = b""
            elif envstate == "string":
                env[ENVN] = e
            d = _decl(kind, default, optional, envstate != "unbound")
            if envstate == "unbound" and rng.random() < 0.5:
                env[ENVN] = b"must-not-be-read"
            cases.append({"decl": d, "env": env, "argv": _given_argv(rng, kind, given),
                          "cell": [kind, str(given), envstate, repr(default), optional]})
            if envstate != "unbound" and e in (None, b"plain", b"x;y", b"TRUE", b"no", b"dflt", b"d1;d2"):
                # history layer: the parser has parsed before, under another state of the environment
                for pre_env in (None, b"", b"earlier"):
                    pre_argv = rng.choice([[], [], _given_argv(rng, kind, True)])
                    if kind != "t" and not optional and default is None and pre_env != b"earlier" and not pre_argv:
                        pre_argv = _given_argv(rng, kind, True)   # keep the first parse acceptable
                    cases.append({"decl": d, "env": env, "argv": _given_argv(rng, kind, given),
                                  "pre": {"env": pre_env, "argv": pre_argv},
                                  "cell": [kind, str(given), envstate, repr(default), optional]})
                # ... or has REJECTED a command line after taking a value from it (the ranking must not start from
                # what the rejected call left behind)
                cases.append({"decl": d, "env": env, "argv": _given_argv(rng, kind, given),
                              "pre": {"env": rng.choice([None, b"earlier"]),
                                      "argv": _given_argv(rng, kind, True) + rng.choice([[b"--nope"], [b"stray"], [b"-z"]]),
                                      "rejected": True},
                              "cell": [kind, str(given), envstate, repr(default), optional]})
    if tier == "thorough":
        cells = list(_cells())
        alpha = [b"-", b"=", b";", b"a", b" ", b"\n", b"\x80", b"1", b"no", b"on", b"TRUE"]
        for _ in range(100000 // nch):
            kind, given, envstate, default, optional = rng.choice(cells)
            e = b"".join(rng.choice(alpha) for _ in range(rng.randint(1, 6)))
            if rng.random() < 0.2:
                e = rng.choice(CONTENT)
            env2 = rng.random() < 0.3
            d = _decl(kind, default, optional, True, env2=env2)
            cases.append({"decl": d, "env": {ENVN: e}, "argv": _given_argv(rng, kind, given),
                          "cell": [kind, str(given), "string" + ("+shared" if env2 else ""), repr(default),
                                   optional]})
    return cases


def script(cid, case):
    pre = case.get("pre")
    if not pre:
        return optoracle.single_script(cid, case)
    # the same parser parses once under another state of the environment first: the ranking of the
    # sources must be decided afresh by every parse
    actions = []
    if pre["env"] is not None:
        actions.append(("setenv", ENVN, pre["env"]))
    actions.append(("parse", "A", pre["argv"]))
    if ENVN in case["env"]:
        actions.append(("setenv", ENVN, case["env"][ENVN]))
    else:
        actions.append(("unsetenv", ENVN))
    actions.append(("parse", "A", case["argv"]))
    text, _ = optrun.case_script(cid, case["decl"], {}, actions)
    return text


def evaluate(case, lines, S):
    plines = [l for l in lines if l.startswith("P ")]
    line = plines[-1] if plines else None
    if line is None:
        S.inconc.append("no parse line")
        return
    d, env, argv = case["decl"], case["env"], case["argv"]
    cell = case["cell"]
    if case.get("pre"):
        S.counters["second-parse-after-another-environment-state"] += 1
        if case["pre"].get("rejected"):
            S.counters["second-parse-after-a-rejected-command-line"] += 1
    e = env.get(ENVN)
    bound = d["opts"][0].get("env") is not None
    S.counters["cell:%s:given=%s:%s" % (cell[0], cell[1], cell[2])] += 1
    S.extra.setdefault("cells", set()).add(":".join(str(c) for c in cell))
    S.counters["env:" + (eclass(e) if bound else "unbound")] += 1
    if bound and e:
        S.distinct.add(optrun.h64(cell, e))
    kind, suffix, desc, ex, ob = optoracle.judge(d, env, argv, line)
    if kind in ("agree-accept", "agree-reject"):
        if len(S.samples) < 4 and bound and e and e.startswith(b"-") and cell[1] == "False":
            S.samples.append(dict(optoracle.show(d, env, argv), cell=cell,
                                  outcome=("rejected: " + ex.reject) if ex.reject else
                                  {"value": repr(ex.o.get(b"opt", ex.m.get(b"opt", ex.t.get(b"opt")))),
                                   "provided": b"opt" in ex.prov}))
        return
    where = "%s:given=%s:env=%s" % (cell[0], cell[1], eclass(e) if bound else "unbound")
    S.violation("%s:%s:%s" % (where, kind, suffix),
                "%s; cell %s; %s; observed %s" % (desc, cell, optoracle.show(d, env, argv), line[:300]), case)


def finish(run, S, tier):
    want = {":".join(str(c) for c in cell) for cell in _cells()}
    got = S.extra.get("cells", set())
    miss = sorted(want - got)
    if miss:
        run.inconc("matrix cells never exercised: %s" % miss[:5])
    return {"matrix_cells": len(want & got), "matrix_cells_total": len(want),
            "exhaustive": tier == "quick"}


def run(tier, replay=None):
    return optcheck.main("c03", tier, replay)
