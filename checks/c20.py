"""C20 - enumerate and reverse visit every element once, in the right order, in place."""
import os
import subprocess

import build
import driver
import verdict

PROP = "C20"
LEVEL = "exploration"
RULE = ("the full product {std::vector, list, deque, map, std::array, built-in array, initializer list, "
        "fixed_vector} x {lvalue, const, rvalue} x lengths 0..5 and 16, 17, 33, 64, 65, 255-257, 1000, 65537 (thorough: 0..64 and up to 70000) x "
        "{enumerate, reverse}: exact (index, value) sequence; for lvalue and const ranges the visited value's address "
        "equals the element's address and writes through the adaptor are read back from the container; temporaries "
        "are iterated under ASan (stack-use-after-scope exposes a dangling range); evaluations = combinations; all "
        "combinations are distinct, distinct_nontrivial = combinations with length >= 1")


def run(tier, replay=None):
    run_ = verdict.Run(PROP, tier, LEVEL, replay_of=replay)
    if replay:
        import collections
        import json
        import mtindep
        with open(replay) as fh:
            rcase = json.load(fh).get("case")
        if isinstance(rcase, dict) and rcase.get("phase") == "concurrent-independent-use":
            mtindep.replay(run_, rcase, collections.Counter())
            return run_.finish(10, 1, RULE)
    import shutil
    tags = ["gasan", "casan"]
    if shutil.which("valgrind"):
        tags = tags + ["memcheck"]     # the uninstrumented build under valgrind memcheck (uninitialised values)
    maxlen = 5 if tier == "quick" else 64
    total = {}
    for tag in tags:
        exe = build.build_exe(tag if tag != "memcheck" else "plain", ["iteradapt.cpp"])
        env = dict(os.environ)
        env.update(driver.SAN_ENV)
        try:
            extra = ["16", "17", "33", "64", "65", "255", "256", "257", "1000", "65537"] if tier == "quick" else \
                ["100", "255", "256", "257", "1000", "4097", "70000"]
            cmd = [exe, str(maxlen)] + extra
            if tag == "memcheck":
                cmd = list(driver.MEMCHECK) + [exe, "4", "17", "65", "257"]
            p = subprocess.run(cmd, capture_output=True, env=env, timeout=1800)
        except subprocess.TimeoutExpired:
            run_.inconc("wall-clock watchdog fired")
            continue
        out, err = p.stdout.decode("latin-1"), p.stderr.decode("latin-1", "replace")
        per, order = driver._split_cases(out)
        case = {"maxlen": maxlen, "build": tag}
        for kind in order:
            lines, ended, timeout = per[kind]
            if not ended:
                run_.violation("%s:%s:%s" % ("hang" if timeout else "crash", kind,
                                             driver.classify_report(err, p.returncode)),
                               "while iterating %s\n%s" % (kind, err[-3000:]), dict(case, kind=kind))
            for l in lines:
                if l.startswith("V "):
                    f = l.split(" ", 2)
                    run_.violation(f[1], f[2] if len(f) > 2 else "", dict(case, kind=kind))
        for line in out.split("\n"):
            if line.startswith("STATS") and tag == tags[0]:
                for kv in line.split()[1:]:
                    k, v = kv.split("=")
                    total[k] = int(v)
        if p.returncode != 0 and all(per[k][1] for k in order):
            run_.violation("crash:outside-case:" + driver.classify_report(err, p.returncode), err[-3000:], case)
        if tag == tags[0]:
            run_.sample({"kinds_iterated": order, "maxlen": maxlen})
            run_.sample({"example": "for (auto&& e : enumerate(c)) on std::map<int,int> of length 3: indices 0,1,2; "
                                    "&e.value().second equals the address of the mapped element; assigning through "
                                    "e.value() is read back from the map afterwards"})
    if not replay:
        import collections
        import mtindep
        conc = collections.Counter()
        mtindep.phase(run_, "iter", tier, conc)     # adaptors over thread-private ranges from 2-16 threads at once
        total.update(conc)
    run_.coverage["counters"] = total
    run_.coverage["builds"] = tags
    if not replay and total.get("temporaries-iterated", 0) == 0:
        run_.inconc("no temporary range was iterated")
    build.prune()
    comb = total.get("combinations", 0)
    return run_.finish(comb, comb - 24 if comb > 24 else 0, RULE, exhaustive=True,
                       elements_visited=total.get("elements-visited", 0),
                       aliasing_checks=total.get("aliasing-checks", 0), writes_verified=total.get("writes-verified", 0))
