"""C15 - usage text lists everything once, in declaration order, on any stream.
The driver renders usage() to a fresh stringstream, a stringstream with prior content, std::cout
with a non-seekable capturing buffer (explicit and default argument) and a real pipe.  Oracle:
(1) the texts are byte-identical, (2) a structural parser of the text finds every option in the
synopsis and exactly one entry per option, groups in creation order, options in declaration
order, every description word in order, (3) no line exceeds 80 columns unless it contains an
unbreakable unit that cannot fit its text column."""
import random
import re
from collections import Counter

import optcheck
import optgen
import optrun
from driver import hx

PROP = "C15"
CONCURRENT = "usage"   # extra phase: lib/mtindep.py
LEVEL = "exploration"
RULE = ("random declarations (0-4 groups, 0-12 options of all kinds, names 1-60 chars, descriptions of "
        "0-60 words with word lengths 1-100, defaults / metavars 1-50 chars, app names 1-75 chars) rendered "
        "to 5 kinds of target stream; distinct_nontrivial = distinct declarations with at least two options "
        "whose text was checked structurally on all stream kinds (rarely: up to 260 options, 40 groups, "
        "300-1000 word descriptions, environment names up to 1000 characters); "
        "a concurrent phase (lib/mtindep.py) repeats fixed calls from 2-16 threads on thread-private parsers "
        "under ThreadSanitizer and compares with the serial results")

NAMECH = "abcdefghijklmnopqrstuvwxyzABCXYZ0123456789_-"
WORDCH = "abcdefghijklmnopqrstuvwxyzABCDEFGH0123456789.,;:!?()[]<>-_/'\"=+*"
LETTERS = "abcdefghijklmnopqrstuvwxyzABCDEFGHIJKLMNOPQRSTUVWXYZ0123456789"


def nchunks(tier):
    return 32 if tier == "quick" else 320


def _name(rng, lo=1, hi=60):
    n = rng.choice([rng.randint(lo, 8), rng.randint(lo, 20), rng.randint(lo, hi)])
    while True:
        s = "".join(rng.choice(NAMECH) for _ in range(n))
        if s[0] not in "-" and not s.startswith("no-"):
            return s.encode("latin-1")


def _word(rng, braces=False):
    n = rng.choice([rng.randint(1, 8)] * 6 + [rng.randint(9, 39), rng.randint(38, 42), rng.randint(41, 100)])
    if rng.random() < 0.004:
        n = rng.choice([255, 256, 257, 1000, 4097])
    ch = WORDCH + "{}{}%$\\" if braces else WORDCH
    w = "".join(rng.choice(ch) for _ in range(n))
    if braces and rng.random() < 0.3:
        w = rng.choice(["{{", "}}", "{}", "{{x}}", "$&"]) + w
    if not braces and rng.random() < 0.08:
        # bytes >= 0x80 (UTF-8 and Latin-1 text; latin-1 decoding keeps one character per byte)
        w = rng.choice(["Gr\xc3\xb6\xc3\x9fe", "d\xc3\xa9tail", "\xe4\xf6\xfc", "na\xefve", "\x80\xff", "\xe2\x80\x94"]) + w[:5]
    return w


def _decl(rng):
    ng = rng.randint(0, 4) if rng.random() < 0.97 else rng.choice([9, 17, 40])
    groups = []
    gnames = set()
    for g in range(ng):
        while True:
            gn = _name(rng, 1, 20)
            if gn not in gnames and gn != b"__default":
                gnames.add(gn)
                break
        gd = " ".join(_word(rng)[:12] for _ in range(rng.choice([0, 2, 4, 12, 30]))).encode("latin-1") if rng.random() < 0.6 else b""
        groups.append((gn, gd[:rng.choice([60, 80, 81, 200])].strip()))
    n = rng.choice([0, 1, 2, 3, 5, 8, 12]) if rng.random() < 0.97 else rng.choice([17, 40, 100, 260])
    names = set()
    letters = rng.sample(LETTERS, min(n, len(LETTERS)))
    opts = []
    for i in range(n):
        while True:
            nm = _name(rng)
            if names and rng.random() < 0.15:
                # a name that differs from an existing one only in letter case
                nm = rng.choice(sorted(names)).swapcase()
            if nm not in names and not nm.lower().startswith(b"no-"):
                names.add(nm)
                break
        kind = rng.choice("omt")
        short = letters[i].encode("latin-1") if i < len(letters) and rng.random() < 0.6 else None
        desc = " ".join(_word(rng) for _ in range(rng.choice([0, 1, 3, 8, 20, 60] if rng.random() < 0.98 else
                                                             [300, 1000]))).encode("latin-1")
        env = ("ENV_" + "".join(rng.choice("ABCDEFGHIJ_") for _ in range(
            rng.randint(1, 30) if rng.random() < 0.9 else rng.choice([59, 60, 61, 124, 250, 252, 253, 300, 1000])))).encode("latin-1") \
            if rng.random() < 0.4 else None
        grp = rng.randrange(ng) if ng and rng.random() < 0.6 else None
        mv = _word(rng)[:50].encode("latin-1") if rng.random() < 0.4 else None
        if kind == "t":
            o = optgen.T(nm, short, rev=rng.random() < 0.5, default=rng.choice([None, 0, 1, 1, 2, 3, -1]), env=env,
                         group=grp, desc=desc)
        elif kind == "o":
            o = optgen.O(nm, short, default=_word(rng, True)[:50].encode("latin-1") if rng.random() < 0.5 else None,
                         env=env, group=grp, desc=desc, metavar=mv)
        else:
            dv = [_word(rng, True)[:20].encode("latin-1") for _ in range(rng.randint(0, 3))] if rng.random() < 0.5 else None
            o = optgen.M(nm, short, default=dv, env=env, group=grp, desc=desc, metavar=mv)
        opts.append(o)
    d = optgen.D(opts, pos=rng.choice([None, None, 2, "inf"]), greedy=False)
    d["app"] = _name(rng, 1, rng.choice([8, 8, 30, 75]))
    if rng.random() < 0.5:
        d["about"] = " ".join(_word(rng)[:10] for _ in range(rng.choice([1, 3, 5, 20]))).encode("latin-1")[:rng.choice([60, 200])].strip()
    if rng.random() < 0.3:
        d["group_name"] = _name(rng, 1, 20)
        d.setdefault("about", b"")
    d["groups"] = groups
    if d["pos"] is not None and rng.random() < 0.5:
        d["pos_metavar"] = _word(rng)[:20].encode("latin-1")
    return d


def gen(tier, seed, chunk, nch):
    rng = random.Random("c15-%d-%d" % (seed, chunk))
    cases = []
    for _ in range((3000 if tier == "quick" else 100000) // nch):
        d = _decl(rng)
        prefix = "".join(rng.choice(WORDCH + " \n") for _ in range(rng.choice([1, 5, 30, 200]))).encode("latin-1")
        if len(d["opts"]) >= 2 and rng.random() < 0.3:
            # the text is asked for (and parsing attempted) while the declaration is still incomplete; the final
            # text must list everything all the same
            at = rng.randrange(len(d["opts"]) - 1)
            d["interleave"] = [(at, rng.choice(["USAGE F", "USAGE C", "PARSE A"]))]
        if rng.random() < 0.25:
            d["moved"] = rng.choice(["MOVE", "MOVEA"])     # the text of a parser that was moved after its declaration
        cases.append({"decl": d, "prefix": prefix})
    return cases


def script(cid, case):
    actions = [("usage", "F"), ("usage", "S", case["prefix"]), ("usage", "C"), ("usage", "D"),
               ("usage", "P")]
    text, _ = optrun.case_script(cid, case["decl"], {}, actions, cpu=20)
    return text


# ---------------------------------------------------------------------------------------
def _mv(o):
    return (o.get("metavar") or b"ARG").decode("latin-1")


def expected(decl):
    app = decl.get("app", b"prog").decode("latin-1")
    opts = decl["opts"]
    syn = []
    letters = sorted(o["short"].decode("latin-1") for o in opts if o["kind"] == "t" and o.get("short"))
    if letters:
        syn.append("[-" + "".join(letters) + "]")
    for o in opts:
        if o["kind"] == "t" and (not o.get("short") or o.get("rev")):
            syn.append("[--%s%s]" % ("[no-]" if o.get("rev") else "", o["name"].decode("latin-1")))
    for kind in "om":
        for o in sorted((o for o in opts if o["kind"] == kind), key=lambda o: o["name"]):
            n, m = o["name"].decode("latin-1"), _mv(o)
            if o.get("short"):
                syn += ["[-%s <%s>" % (o["short"].decode("latin-1"), m), "|", "--%s <%s>]" % (n, m)]
            else:
                syn.append("[--%s <%s>]" % (n, m))
    if decl.get("pos"):
        pm = (decl.get("pos_metavar") or b"args").decode("latin-1")
        syn += ["[" + pm, "...]"]
    groups = [(None, (decl.get("group_name") or b"arguments").decode("latin-1"), "")]
    for gi, g in enumerate(decl.get("groups", [])):
        groups.append((gi, g[0].decode("latin-1"), g[1].decode("latin-1")))
    sections = []
    for gi, gname, gdesc in groups:
        entries = []
        for o in opts:
            if o.get("group") != gi:
                continue
            n = o["name"].decode("latin-1")
            if o["kind"] == "t":
                long = "--[no-]" + n if o.get("rev") else "--" + n
                tail = ""
            else:
                long = "--" + n
                tail = " " + _mv(o)
            prefix = "  " + ("-%s, " % o["short"].decode("latin-1") if o.get("short") else "") + long + tail
            words = o.get("desc", b"").decode("latin-1").split()
            if o.get("env"):
                words += ("Can be set using the environment variable '%s'." % o["env"].decode("latin-1")).split()
            if o["kind"] == "o" and o.get("default") is not None:
                words += ("(default: %s)" % o["default"].decode("latin-1")).split()
            elif o["kind"] == "m" and o.get("default") is not None:
                words += ("(default: %s)" % ", ".join(x.decode("latin-1") for x in o["default"] if x)).split()
            elif o["kind"] == "t" and o.get("rev"):
                words += ["(default:", "enabled)" if o.get("default") else "disabled)"]
            entries.append((prefix, words, n))
        if entries:
            sections.append((gname, gdesc, entries))
    return app, syn, sections


def _tokens(line, start=0, merge_metavar=False):
    """whitespace-separated tokens of line[start:] with their end columns; in the synopsis a
    spelling and its <METAVAR> are one unbreakable unit ('[-s <MV>', '--name <MV>]')"""
    toks = [(m.group(0), m.end()) for m in re.finditer(r"\S+", line[start:])]
    toks = [(t, e + start) for t, e in toks]
    if not merge_metavar:
        return toks
    out = []
    i = 0
    while i < len(toks):
        t, e = toks[i]
        if i + 1 < len(toks) and toks[i + 1][0].startswith("<") and (t.startswith("[-") or t.startswith("--")):
            t, e = t + " " + toks[i + 1][0], toks[i + 1][1]
            i += 1
        out.append((t, e))
        i += 1
    return out


def check_text(decl, text):
    """-> list of (key, message)"""
    app, syn, sections = expected(decl)
    problems = []
    try:
        t = text.decode("latin-1")
    except UnicodeDecodeError:
        return [("text:not-ascii", "usage text contains bytes the declaration does not")]
    lines = t.split("\n")
    # --- synopsis block: up to the first empty line
    try:
        end = lines.index("")
    except ValueError:
        return [("synopsis:no-terminator", "no empty line after the synopsis")]
    syn_lines = lines[:end]
    head = "usage: " + app
    if not syn_lines or not syn_lines[0].startswith(head):
        problems.append(("synopsis:header", "synopsis does not start with %r: %r" % (head, syn_lines[:1])))
        return problems
    got_words = (syn_lines[0][len(head):] + " " + " ".join(syn_lines[1:])).split()
    want_words = " ".join(syn).split()
    if Counter(got_words) != Counter(want_words):
        missing = list((Counter(want_words) - Counter(got_words)).elements())
        extra = list((Counter(got_words) - Counter(want_words)).elements())
        problems.append(("synopsis:missing-or-duplicated",
                         "synopsis lacks %r and has extra %r" % (missing[:6], extra[:6])))
    W = 80 - (8 + len(app))
    for li, ln in enumerate(syn_lines):
        if len(ln) <= 80:
            continue
        # every unit that ends beyond column 80 must be one that can never fit its text column
        for tok, endcol in _tokens(ln, len(head) if li == 0 else 0, merge_metavar=True):
            if endcol > 80 and len(tok) + 1 <= W:
                problems.append(("width:unjustified-long-line:synopsis",
                                 "synopsis line of %d columns: %r ends at column %d although it fits a %d column "
                                 "text area: %r" % (len(ln), tok, endcol, W, ln[:140])))
                break
    # --- rest
    rest = lines[end:]
    i = 0

    def expect(s, what):
        nonlocal i
        if i >= len(rest) or rest[i] != s:
            problems.append(("section:" + what, "expected line %r, found %r" % (s, rest[i] if i < len(rest) else None)))
            return False
        i += 1
        return True

    if not expect("", "after-synopsis"):
        return problems
    about = (decl.get("about") or b"").decode("latin-1")
    if about:
        if not expect(about, "about") or not expect("", "about"):
            return problems
    for gname, gdesc, entries in sections:
        if not expect("", "group-order-or-missing-group") or not expect(gname + ":", "group-order-or-missing-group"):
            return problems
        if gdesc:
            if not expect("", "group-description") or not expect(gdesc, "group-description") or \
                    not expect("", "group-description"):
                return problems
        for prefix, words, name in entries:
            if i >= len(rest) or not rest[i].startswith(prefix) or \
                    (len(rest[i]) > len(prefix) and rest[i][len(prefix)] != " "):
                problems.append(("entry:missing-or-out-of-order",
                                 "expected the entry of --%s (%r) in group %s, found %r" %
                                 (name, prefix, gname, rest[i][:80] if i < len(rest) else None)))
                return problems
            block = [rest[i]]
            i += 1
            while i < len(rest) and rest[i].startswith(" " * 39) and not (rest[i].startswith("  -") and rest[i][3:4] != " "):
                block.append(rest[i])
                i += 1
            got = (block[0][len(prefix):] + " " + " ".join(block[1:])).split()
            if got != words:
                if Counter(got) == Counter(words):
                    kind = "reordered"
                elif not (Counter(words) - Counter(got)):
                    kind = "extra"
                else:
                    kind = "lost"
                problems.append(("entry-words:" + kind,
                                 "entry of --%s: expected words %r, found %r" % (name, words[:12], got[:12])))
            for bi, ln in enumerate(block):
                if len(ln) <= 80:
                    continue
                # only words that can never fit the 40 column text area may end beyond column 80
                for tok, endcol in _tokens(ln, len(prefix) if bi == 0 else 0):
                    if endcol > 80 and len(tok) + 1 <= 40:
                        problems.append(("width:unjustified-long-line:entry",
                                         "line of %d columns in the entry of --%s: word %r ends at column %d although "
                                         "it fits the text area: %r" % (len(ln), name, tok, endcol, ln[:140])))
                        break
    if i < len(rest) and any(l.strip() for l in rest[i:]):
        problems.append(("section:extra-text", "unexpected text after the last entry: %r" % rest[i:i + 3]))
    elif rest[i:] not in ([], [""]):
        problems.append(("section:extra-text", "unexpected trailing lines: %r" % rest[i:i + 3]))
    return problems


def evaluate(case, lines, S):
    ul = [l for l in lines if l.startswith("U ")]
    early = sum(1 for _, raw in case["decl"].get("interleave", ()) if raw.startswith("USAGE"))
    if case["decl"].get("moved"):
        S.counters["parser-moved-before-use:" + case["decl"]["moved"]] += 1
    if early:
        S.counters["text-requested-before-the-declaration-was-complete"] += 1
        ul = ul[early:]
    if len(ul) != 5:
        S.inconc.append("expected 5 usage lines, got %d" % len(ul))
        return
    d = case["decl"]
    kinds = ["fresh-stringstream", "stringstream-with-prior-content", "cout-nonseekable",
             "cout-default-argument", "pipe"]
    texts = []
    for k, l in zip(kinds, ul):
        if not l.startswith("U ok "):
            S.violation("usage-threw:" + k, "usage() on %s: %s" % (k, l[:200]), case)
            return
        texts.append(bytes.fromhex(l[5:].strip()[1:]))
        S.counters["stream:" + k] += 1
    for k, t in zip(kinds[1:], texts[1:]):
        if t != texts[0]:
            j = next((x for x in range(min(len(t), len(texts[0]))) if t[x] != texts[0][x]), min(len(t), len(texts[0])))
            S.violation("stream-dependent:" + k,
                        "usage text on %s differs from the fresh stringstream at byte %d: %r vs %r" %
                        (k, j, t[max(0, j - 30):j + 40], texts[0][max(0, j - 30):j + 40]), case)
            return
    probs = check_text(d, texts[0])
    nl = texts[0].count(b"\n")
    S.counters["lines-checked"] += nl
    S.counters["long-lines-justified"] += sum(1 for ln in texts[0].split(b"\n") if len(ln) > 80) if not probs else 0
    S.counters["options-listed"] += len(d["opts"])
    if len(d["opts"]) >= 2:
        S.distinct.add(optrun.h64(optgen.decl_id(d)))
    for key, msg in probs[:2]:
        S.violation(key, msg + "\n--- text ---\n" + texts[0].decode("latin-1")[:1500], case)
    if not probs and len(S.samples) < 2 and 2 <= len(d["opts"]) <= 3 and nl < 14:
        S.samples.append({"options": [o["name"].decode("latin-1") for o in d["opts"]],
                          "text": texts[0].decode("latin-1")})


def finish(run, S, tier):
    if S.counters.get("long-lines-justified", 0) == 0:
        run.inconc("no over-long line was produced: the width rule was not exercised")
    return {"lines_checked": S.counters.get("lines-checked", 0)}


def run(tier, replay=None):
    return optcheck.main("c15", tier, replay)
