"""C17 - split, join, replace_all and starts_with obey their string laws.
Python oracles (str.split, str.replace, str.startswith, infix.join(non-empty elements)) plus the
algebraic laws of the property evaluated on the observed outputs; a CPU-time budget decides
'returns for every input'."""
import itertools
import random

import batchrun
import mtindep
import build
import optrun
import verdict
from driver import hx

PROP = "C17"
LEVEL = "exploration"
RULE = ("exhaustive strings over {a, b, blank} up to length 6 (quick) / 8 (thorough) x separators / patterns "
        "up to length 3 (empty included) x replacements up to length 2; all lists of 0-4 elements over "
        "{'', 'a', 'a ', ' ', 'ab'} x infixes {' ', ',', ', ', '', 'ab', default}; seeded random longer inputs "
        "over a wider alphabet; a scale layer (16 ... 70000 pieces / elements, subjects, separators and elements of "
        "15 ... 70000 bytes); a concurrent phase (lib/mtindep.py: 2-16 threads calling the four functions on "
        "thread-private strings under ThreadSanitizer, results compared with the serial ones); joins of elements whose "
        "inserter leaves std::hex on its stream or throws half-way, followed by ordinary joins; distinct_nontrivial = distinct (function, arguments) tuples in which the "
        "separator / pattern / prefix occurs in the subject at least once, or (join) the list has an empty or "
        "blank-terminated element")

AL = [b"a", b"b", b" "]


def strings(maxlen, alphabet=AL):
    for n in range(maxlen + 1):
        for t in itertools.product(alphabet, repeat=n):
            yield b"".join(t)


def _jobs(tier):
    """deterministic enumeration of all exhaustive operations as (kind, args)"""
    L = 6 if tier == "quick" else 8
    pats3 = list(strings(3))
    reps2 = list(strings(2))
    for s in strings(L):
        for sep in pats3:
            yield ("split", s, sep)
    Lr = 5 if tier == "quick" else 7
    for s in strings(Lr):
        for p in (pats3 if tier != "quick" else list(strings(2))):
            for r in reps2:
                yield ("repl", s, p, r)
    for s in strings(5 if tier == "quick" else 7):
        for p in strings(4):
            yield ("sw", s, p)
    elems = [b"", b"a", b"a ", b" ", b"ab"]
    for n in range(0, 5):
        for lst in itertools.product(elems, repeat=n):
            for infix in (b" ", b",", b", ", b"", b"ab", None):
                yield ("join", infix, list(lst))
    for lst in itertools.product([0, 7, -3, 10], repeat=3):
        yield ("joini", b", ", list(lst))
    words = [b"a", b"ab", b"b,", b"x"]
    for n in range(0, 5):
        for lst in itertools.product(words, repeat=n):
            for infix in (b" ", b",", b"", b", "):
                yield ("joins", infix, list(lst))


def _random_jobs(rng, n):
    wide = [b"a", b"b", b" ", b"ab", b"aa", b"\n", b"\xff", b",", b"aba", b"\t"]
    for _ in range(n):
        k = rng.random()
        if rng.random() < 0.12:
            # long separators / patterns (15-40 characters) at the start, in the middle, at the end, repeated
            sep = b"".join(rng.choice([b"a", b"b", b"ab", b"-"]) for _ in range(rng.choice([15, 16, 17, 21, 32, 40])))[:rng.choice([15, 16, 17, 21, 32])]
            parts = [b"".join(rng.choice(wide) for _ in range(rng.randint(0, 5))) for _ in range(rng.randint(1, 4))]
            s_ = sep.join(parts)
            if rng.random() < 0.5:
                s_ += sep * rng.randint(1, 2)
            if rng.random() < 0.3:
                s_ = sep + s_
            if rng.random() < 0.1:
                s_ = b""
            if k < 0.5:
                yield ("split", s_, sep)
            else:
                yield ("repl", s_, sep, rng.choice([b"", b"x", sep[:-1], sep + b"!"]))
            continue
        s = b"".join(rng.choice(wide) for _ in range(rng.randint(0, 40)))
        p = b"".join(rng.choice(wide[:6]) for _ in range(rng.randint(0, 3)))
        if rng.random() < 0.1:
            # separators / patterns / prefixes of bytes >= 0x80 (plain char is signed here, unsigned elsewhere)
            p = rng.choice([b"\xff", b"\xa0", b"\x80", b"\xc3\xa4", b"\xff\xff", b"a\xff"])
            s = p.join(b"".join(rng.choice(wide + [b"\xa0", b"\xc3"]) for _ in range(rng.randint(0, 4)))
                       for _ in range(rng.randint(1, 5)))
        if k < 0.3:
            yield ("split", s, p)
        elif k < 0.6:
            r = b"".join(rng.choice(wide) for _ in range(rng.randint(0, 4)))
            if rng.random() < 0.3:
                r = p + r + p   # replacement containing the pattern
            yield ("repl", s, p, r)
        elif k < 0.75:
            yield ("sw", s, s[:rng.randint(0, len(s))] if rng.random() < 0.6 else p)
        elif k < 0.97:
            lst = [b"".join(rng.choice(wide) for _ in range(rng.choice([0, 0, 1, 2, 5]))) for _ in range(rng.randint(0, 8))]
            yield ("join", rng.choice([b" ", b",", b"", b"--", None]), lst)
        else:
            # history: hostile element inserters, followed by ordinary joins in the same process
            nums = [rng.choice([10, 255, 4096, 7, 0, 31]) for _ in range(rng.randint(1, 4))]
            if rng.random() < 0.5:
                yield ("joinh", b" ", nums)
            else:
                yield ("joint", b",", nums[:-1] + [rng.choice([-1, 5])])
            yield ("joini", b" ", nums)
            yield ("join", b", ", [b"Hello", b"", b"World ", b"x"])
            # ranges of other element TYPES: characters (four container kinds), unsigned 64 bit, short, bool, double,
            # C strings
            yield ("joinp", rng.choice([b",", b" ", b"", b", "]),
                   [rng.choice([b"a", b"", b"b ", b"", b"word"]) for _ in range(rng.randint(0, 6))])
            yield ("joinc", rng.choice([b"-", b"", b", "]), rng.choice([b"abc", b"x", b"", b"a b", b"\xc3\xa4z", b"0123456789" * 3]))
            yield ("joint2", rng.choice([b" ", b","]), [rng.choice([0, 7, 255, 4096, 65535, 2147483647]) for _ in range(rng.randint(1, 4))])


def _scale_jobs(rng):
    """piece counts, subject / separator / element lengths beyond small fixed-size buffers and narrow counters"""
    for pieces in (16, 17, 64, 65, 255, 256, 257, 1000, 70000):
        for sep in (b",", b"ab", b"-" * 17):
            if pieces > 1000 and len(sep) > 1:
                continue
            parts = [rng.choice([b"", b"x", b"yz", b" "]) for _ in range(pieces)]
            subject = sep.join(parts)
            yield ("split", subject, sep)
            yield ("repl", subject, sep, rng.choice([b"", b";", sep + sep]))
    for n in (15, 16, 17, 255, 256, 257, 300, 4096, 4097, 70000):
        body = bytes(rng.choice(b"abc ") for _ in range(n))
        yield ("split", body, b"c")
        yield ("split", body, body)                 # the separator is the whole subject
        yield ("split", body + b"|" + body, b"|")
        yield ("split", b"x" + body + b"y" + body + b"z", body)   # separator of n characters
        yield ("repl", b"x" + body + b"y" + body, body, b"<>")
        yield ("repl", body, b"a", body[:40])
        yield ("sw", body + b"tail", body)
        yield ("sw", body + b"tail", body[:-1] + b"#")
        yield ("sw", body[:-1], body)
        yield ("join", rng.choice([b" ", b", ", None]), [body, b"", body[:3], body])
    for n in (16, 17, 64, 65, 255, 256, 257, 1000, 20000):
        lst = [rng.choice([b"", b"e", b"el ", b"x" * 20]) for _ in range(n)]
        yield ("join", rng.choice([b" ", b",", b"", b"--" * 10, None]), lst)
        yield ("joini", b", ", [rng.randint(-1000, 1000) for _ in range(min(n, 1000))])
        yield ("joins", b";", [rng.choice([b"w", b"word", b"x" * 20]) for _ in range(min(n, 1000))])


def op_line(job):
    k = job[0]
    if k == "split":
        return "SPLIT %s %s" % (hx(job[1]), hx(job[2]))
    if k == "repl":
        return "REPL %s %s %s" % (hx(job[1]), hx(job[2]), hx(job[3]))
    if k == "sw":
        return "SW %s %s" % (hx(job[1]), hx(job[2]))
    if k == "join":
        return "JOIN %s %s" % ("-" if job[1] is None else hx(job[1]), " ".join(hx(e) for e in job[2]))
    if k == "joini":
        return "JOINI %s %s" % (hx(job[1]), " ".join(str(i) for i in job[2]))
    if k == "joins":
        return "JOINS %s %s" % (hx(job[1]), " ".join(hx(e) for e in job[2]))
    if k in ("joinh", "joint", "joint2"):
        return "%s %s %s" % (k.upper(), hx(job[1]), " ".join(str(i) for i in job[2]))
    if k == "joinc":
        return "JOINC %s %s" % (hx(job[1]), hx(job[2]))
    if k == "joinp":
        return "JOINP %s %s" % (hx(job[1]), " ".join(hx(e) for e in job[2]))
    raise ValueError(job)


def count_nonoverlapping(s, sep):
    n, i = 0, 0
    while True:
        j = s.find(sep, i)
        if j < 0:
            return n
        n += 1
        i = j + len(sep)


def hostile_class(job):
    k = job[0]
    if k == "split":
        s, sep = job[1], job[2]
        if not sep:
            return "empty-separator"
        if len(sep) > 1 and (sep + sep).find(sep, 1) < len(sep):
            return "self-overlapping-separator"
        return "occurs" if sep in s else "absent"
    if k == "repl":
        s, p, r = job[1:]
        if not p:
            return "empty-pattern"
        if p in r:
            return "pattern-in-replacement"
        if len(p) > 1 and (p + p).find(p, 1) < len(p):
            return "self-overlapping-pattern"
        return "occurs" if p in s else "absent"
    if k == "sw":
        return "empty-prefix" if not job[2] else ("prefix" if job[1].startswith(job[2]) else
                                                  ("occurs-later" if job[2] in job[1] else "absent"))
    if k == "joins":
        return "single-pass-range"
    if k == "joinc":
        return "range-of-characters"
    if k == "joinp":
        return "c-strings-and-string-views"
    if k == "joint2":
        return "other-element-types"
    if k == "joinh":
        return "element-inserter-leaves-hex-on-its-stream"
    if k == "joint":
        return "element-inserter-throws-half-way" if any(i < 0 for i in job[2]) else "element-inserter-may-throw"
    if k == "join":
        lst = job[2]
        if any(e == b"" for e in lst):
            return "empty-element"
        if any(e.endswith(b" ") for e in lst):
            return "blank-terminated-element"
        return "plain"
    return "ints"


def judge(job, res):
    """-> None or (key, message)"""
    k = job[0]
    cls = hostile_class(job)
    if res[0] == "timeout":
        return ("timeout:%s(%s)" % (k, cls), "did not return within the CPU budget")
    if res[0] == "crash":
        return ("crash:%s:%s" % (k, res[1]), res[2][-1500:])
    if res[0] != "ok":
        return None
    line = res[1]
    if k == "split":
        s, sep = job[1], job[2]
        if not sep:
            if " !" not in line:
                return ("split:empty-separator-did-not-raise", line[:200])
            return None
        if not line.startswith("S ok "):
            return ("split:raised:" + cls, line[:200])
        f = line.split()
        pieces = [bytes.fromhex(x[1:]) for x in f[3:]]
        if int(f[2]) != len(pieces):
            return ("split:count-field", line[:200])
        if sep.join(pieces) != s:
            return ("split:glue-back:" + cls, "pieces %r do not glue back to %r with %r" % (pieces, s, sep))
        if len(pieces) != 1 + count_nonoverlapping(s, sep):
            return ("split:piece-count:" + cls, "%d pieces for %r / %r" % (len(pieces), s, sep))
        if any(sep in p for p in pieces):
            return ("split:piece-contains-separator:" + cls, "%r / %r -> %r" % (s, sep, pieces))
        if pieces != s.split(sep):
            return ("split:differs-from-reference:" + cls, "%r / %r -> %r, reference %r" % (s, sep, pieces, s.split(sep)))
        return None
    if k == "repl":
        s, p, r = job[1:]
        if not line.startswith("R ok "):
            return ("replace_all:raised:" + cls, line[:200])
        got = bytes.fromhex(line.split()[2][1:])
        want = s.replace(p, r)
        if got != want:
            return ("replace_all:differs-from-single-pass:" + cls,
                    "replace_all(%r, %r, %r) = %r, single left-to-right pass gives %r" % (s, p, r, got, want))
        return None
    if k == "sw":
        if not line.startswith("W ok "):
            return ("starts_with:raised", line[:200])
        got = line.split()[2] == "1"
        if got != job[1].startswith(job[2]):
            return ("starts_with:not-the-prefix-relation:" + cls, "starts_with(%r, %r) = %s" % (job[1], job[2], got))
        return None
    if k == "joinc":
        if not line.startswith("J ok "):
            return ("join:raised:" + cls, line[:200])
        f = line.split()
        a, b = bytes.fromhex(f[2][1:]), bytes.fromhex(f[3][1:])
        want = job[1].join(bytes([ch]) for ch in job[2])
        if a != want or b != want:
            return ("join:range-of-characters-differs", "join over the characters of %r with %r = %r / %r, expected %r" %
                    (job[2], job[1], a, b, want))
        return None
    if k == "joint2":
        if not line.startswith("J ok "):
            return ("join:raised:" + cls, line[:200])
        f = line.split()
        a, b = bytes.fromhex(f[2][1:]), bytes.fromhex(f[3][1:])
        nums = job[2]
        inf = job[1]
        want_a = inf.join(str(n).encode() for n in nums)
        want_b = b"|".join([inf.join(str(n % 30000).encode() for n in nums),
                            inf.join(str(n % 2).encode() for n in nums),
                            inf.join(("%g" % ((n % 1000) + 0.5)).encode() for n in nums),
                            inf.join(str(n).encode() for n in nums)])
        if a != want_a or b != want_b:
            return ("join:other-element-types-differ", "join(%r, %r) = %r / %r, expected %r / %r" % (nums, inf, a, b, want_a, want_b))
        return None
    if k == "joint" and any(i < 0 for i in job[2]):
        if not line.startswith("J !std::runtime_error"):
            return ("join:element-exception-did-not-propagate", line[:200])
        return None
    if k in ("join", "joini", "joins", "joinh", "joint", "joinp"):
        infix = b" " if job[1] is None else job[1]
        elems = job[2] if k not in ("joini", "joinh", "joint") else \
            [(str(i) if k == "joini" else ("%x" % i if k == "joinh" else "part%d" % i)).encode() for i in job[2]]
        if not line.startswith("J ok "):
            return ("join:raised:" + cls, line[:200])
        f = line.split()
        a, b = bytes.fromhex(f[2][1:]), bytes.fromhex(f[3][1:])
        want = infix.join(e for e in elems if e)
        if a != b:
            if k == "joins":
                return ("join:single-pass-input-range-differs-from-multi-pass",
                        "input iterators %r, list iterators %r for %r" % (a, b, elems))
            return ("join:overloads-disagree", "vector overload %r, iterator overload %r" % (a, b))
        if a != want:
            sub = "differs"
            if infix and (a.endswith(infix) and not want.endswith(infix)):
                sub = "dangling-infix"
            elif infix and a.startswith(infix) and not want.startswith(infix):
                sub = "leading-infix"
            elif len(a) < len(want):
                sub = "element-altered-or-lost"
            elif infix and (infix + infix) in a and (infix + infix) not in want:
                sub = "doubled-infix"
            return ("join:%s:%s" % (sub, cls), "join(%r, %r) = %r, expected %r" % (elems, infix, a, want))
        return None
    return None


def nontrivial(job):
    k = job[0]
    if k == "split":
        return bool(job[2]) and job[2] in job[1]
    if k == "repl":
        return job[2] in job[1]
    if k == "sw":
        return bool(job[2]) and job[2] in job[1]
    if k == "join":
        return any(e == b"" or e.endswith(b" ") for e in job[2])
    if k == "joins":
        return len(job[2]) >= 2
    return True


def _work(arg):
    tier, seed, chunk, nch, exe = arg
    S = optrun.Summary()
    jobs = [j for i, j in enumerate(_jobs(tier)) if i % nch == max(chunk, 0)]
    rng = random.Random("c17-%d-%d" % (seed, max(chunk, 0)))
    jobs += list(_random_jobs(rng, (20000 if tier == "quick" else 400000) // nch))
    if chunk % 8 == 0:
        jobs += list(_scale_jobs(rng))
    if chunk < 0:
        # memcheck sample: small operations of chunk 0 on the uninstrumented build under valgrind (values used
        # before they were initialised are invisible to ASan / UBSan)
        small = [j for j in jobs if len(op_line(j)) < 400]
        random.Random("memcheck-%d" % seed).shuffle(small)
        jobs = small[:600 if tier == "quick" else 4000]
        res = batchrun.run_ops(exe, [op_line(j) for j in jobs], batch=100, cpu=90, wrapper=batchrun.MEMCHECK,
                               max_bad=2, max_bad_batches=1)   # (a hanging operation must not cost an hour here)
        S.counters["operations-under-memcheck"] += len(jobs)
    else:
        res = batchrun.run_ops(exe, [op_line(j) for j in jobs])
    for job, r in zip(jobs, res):
        S.n += 1
        S.counters["fn:" + job[0]] += 1
        S.counters["class:%s:%s" % (job[0], hostile_class(job))] += 1
        if nontrivial(job):
            S.distinct.add(optrun.h64(job))
        if r[0] == "skipped":
            S.counters["skipped-after-enough-witnesses"] += 1
            continue
        if r[0] in ("watchdog", "missing"):
            S.inconc.append("operation not executed (%s): %r" % (r[0], job))
            continue
        v = judge(job, r)
        if v:
            S.violation(v[0], v[1], {"job": list(job)})
        elif len(S.samples) < 5 and S.counters["fn:" + job[0]] == 200 and nontrivial(job):
            S.samples.append({"call": op_sample(job), "result": r[1][:200]})
    return S


def op_sample(job):
    return "%s(%s)" % (job[0], ", ".join(repr(x) for x in job[1:]))


def nchunks(tier):
    return 16 if tier == "quick" else 64


def run(tier, replay=None):
    import json
    run_ = verdict.Run(PROP, tier, LEVEL, replay_of=replay)
    exe = batchrun.strdrv("gasan")
    S = optrun.Summary()
    if replay:
        with open(replay) as fh:
            rcase = verdict.unhex_json(json.load(fh))["case"]
        if rcase.get("phase") == "concurrent-independent-use":
            mtindep.replay(run_, rcase, S.counters)
            return run_.finish(10, 1, RULE)
        job = rcase["job"]
        job = tuple(job[:1] + [x for x in job[1:]])
        res = batchrun.run_ops(exe, [op_line(job)])
        S.n = 1
        v = judge(job, res[0])
        if v:
            S.violation(v[0], v[1], {"job": list(job)})
        S.distinct = {1, 2}
    else:
        n = nchunks(tier)
        import shutil
        work = [(tier, run_.seed, c, n, exe) for c in range(n)]
        # every 4th chunk once more on the second compiler (clang ASan+UBSan)
        casan = batchrun.strdrv("casan")
        work += [(tier, run_.seed, c, n, casan) for c in range(0, n, 4)]
        if shutil.which("valgrind"):
            work.append((tier, run_.seed, -1, n, batchrun.strdrv("plain")))
        for part in optrun.pmap(_work, work):
            S.merge(part)
        # the same functions from 2-16 threads on thread-private arguments: serial results, no data race
        S.n += mtindep.phase(run_, "string", tier, S.counters)
    if not replay and not batchrun.join_probe():
        run_.violation("join:does-not-compile-for-input-iterators",
                       "nitro::lang::join(first, last, infix) does not compile (or misbehaves) for std::list iterators "
                       "and std::istream_iterator (harness/strdrv_join_probe.cpp); those operations are excluded from "
                       "the run, the same elements go through vectors", {"probe": "strdrv_join_probe.cpp"})
    for key, what, case in S.viol:
        run_.violation(key, what, case)
    for r in S.inconc[:3]:
        run_.inconc(r)
    for s in S.samples:
        run_.sample(s, limit=5)
    run_.coverage["counters"] = dict(sorted(S.counters.items()))
    if S.counters.get("skipped-after-enough-witnesses", 0) and not S.viol:
        run_.inconc("operations were skipped without a violation being recorded")
    if not replay:
        for need in ("class:repl:empty-pattern", "class:repl:pattern-in-replacement",
                     "class:split:self-overlapping-separator", "class:join:empty-element",
                     "class:join:blank-terminated-element", "class:sw:empty-prefix", "class:split:empty-separator",
                     "class:joinh:element-inserter-leaves-hex-on-its-stream",
                     "class:joint:element-inserter-throws-half-way"):
            if S.counters.get(need, 0) == 0:
                run_.inconc("hostile class never exercised: " + need)
    build.prune()
    return run_.finish(S.n, len(S.distinct), RULE, exhaustive=False)
