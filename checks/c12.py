"""C12 - positionals: `--`, greedy mode, the accepted count and negative indices.
Model steps 1-3 and 7, plus get(i) for every i in [-n-1, n] on every accepted result."""
import itertools
import random

import optcheck
import optgen
import optoracle
import optrun
from optmodel import check_indices

PROP = "C12"
CONCURRENT = "parse"   # extra phase: lib/mtindep.py (parsers used by several threads at once)
LEVEL = "exploration"
RULE = ("accepted counts {none, 0, 1, 2, 3, unlimited} x greedy on/off x all vectors up to length 4 "
        "(quick) / 5 (thorough) over {value, empty value, a=b, option=value, option awaiting its value, "
        "toggle letter, toggle, --}, plus seeded random vectors with hostile tokens (-, ---x, -=x, --, "
        "declared spellings, undeclared names, bytes >= 0x80) behind a `--`; every accepted result is "
        "probed with get(i) for all i in [-n-1, n]; distinct_nontrivial = distinct (configuration, vector) "
        "pairs containing at least one positional candidate or a `--`; plus a scale part: 17 ... 70001 "
        "positionals against unlimited / 65536 / 70000 accepted, every index probed")

CONFIGS = [(None, False), (0, False), (1, False), (1, True), (2, False), (2, True), (3, False), (3, True),
           ("inf", False), ("inf", True), (65536, False), (70000, True)]
SCALE_N = [17, 65, 257, 300, 4097, 65535, 65536, 65537, 70000, 70001]
PRE = [b"p", b"", b"a=b", b"--opt=v", b"--opt", b"-t", b"--tog", b"--", b"--nope", b"=x"]
POST = [b"-", b"---x", b"-=x", b"--", b"--opt", b"--opt=w", b"-t", b"--nope", b"-z", b"\xff\xfe", b"--=",
        b"-tz", b"p2", b"", b"--no-tog", b"-" * 70]


def nchunks(tier):
    return 32 if tier == "quick" else 256


def _decl(pos, greedy, greedy_first=False):
    return optgen.D([optgen.O(b"opt", b"o"), optgen.T(b"tog", b"t"), optgen.M(b"mul", b"m")], pos, greedy,
                    greedy_first=greedy_first)


def gen(tier, seed, chunk, nch):
    cases = []
    k = 0
    maxlen = 4 if tier == "quick" else 5
    for ci, (pos, greedy) in enumerate(CONFIGS[:10]):
        d = _decl(pos, greedy)
        d2 = _decl(pos, greedy, greedy_first=True)
        for L in range(0, maxlen + 1):
            for seq in itertools.product(PRE, repeat=L):
                k += 1
                if k % nch != chunk:
                    continue
                # both orders of the two configuration calls (they must commute)
                cases.append({"decl": d2 if (greedy and k % 2) else d, "argv": list(seq), "cfg": ci})
    # scale: positional counts beyond 16-bit counters and small buffers
    for ci, (pos, greedy) in enumerate(CONFIGS):
        if pos not in ("inf", 65536, 70000):
            continue
        for n in SCALE_N:
            if pos != "inf" and abs(n - pos) > 1:
                continue
            for shape in range(3):
                k += 1
                if k % nch != chunk:
                    continue
                if tier == "quick" and n > 4097 and shape == 1 and pos == "inf":
                    continue
                vals = [b"p%d" % i for i in range(n)]
                argv = {0: vals, 1: [b"--"] + vals, 2: vals[:n // 2] + [b"--tog", b"--"] + vals[n // 2:]}[shape]
                if greedy and shape == 2:
                    argv = [b"--tog"] + vals
                cases.append({"decl": _decl(pos, greedy), "argv": argv, "cfg": ci, "scale": True})
    rng = random.Random("c12-%d-%d" % (seed, chunk))
    for _ in range((12000 if tier == "quick" else 120000) // nch):
        ci = rng.randrange(10)
        pos, greedy = CONFIGS[ci]
        d = _decl(pos, greedy, greedy_first=rng.random() < 0.5)
        lim = 4 if pos in (None, "inf") else pos
        # aim at the boundary: exactly limit or limit + 1 positionals in most cases
        want = rng.choice([lim, lim, lim + 1, rng.randint(0, lim + 2)])
        pre = []
        npos = 0
        for _ in range(rng.randint(0, 4)):
            t = rng.choice(PRE[:7] + PRE[8:] + [b"=", b"==a", b"=-t", b"\xff=", b" "])
            if not t.startswith(b"-"):
                if npos >= want:
                    continue
                npos += 1
            pre.append(t)
        argv = pre
        if rng.random() < 0.8:
            argv = pre + [b"--"]
            while npos < want:
                argv.append(rng.choice(POST))
                npos += 1
        if rng.random() < 0.25:
            d = dict(d, moved=rng.choice(["MOVE", "MOVEA"]))   # the configured parser is moved before it is used
        case = {"decl": d, "argv": argv, "cfg": ci, "rand": True}
        if rng.random() < 0.25:
            # through parse(std::vector<user_input>): tokens built by the string constructor (V) or, for everything
            # that does not start with a dash, by user_input::verbatim() (W)
            case["mode"] = rng.choice(["V", "W", "W"])
        if rng.random() < 0.3:
            # earlier calls on the same parser: too many positionals, an unknown option behind positionals,
            # a value missing behind positionals, an empty vector, an accepted vector
            case["earlier"] = [rng.choice([[b"s0", b"s1", b"s2", b"s3", b"s4"], [b"s0", b"s1", b"--nope"],
                                           [b"s0", b"--opt"], [], [b"s0"], [b"--", b"s0", b"-x"],
                                           [b"s0", b"--", b"s1", b"s2", b"s3", b"s4", b"s5"]])
                               for _ in range(rng.randint(1, 2))]
        cases.append(case)
    return cases


def script(cid, case):
    return optoracle.single_script(cid, case)


def evaluate(case, lines, S):
    line = optoracle.judged_line(lines)
    if case.get("earlier"):
        S.counters["judged-parse-on-a-parser-with-a-history"] += 1
    if line is None:
        S.inconc.append("no parse line")
        return
    d, argv = case["decl"], case["argv"]
    pos, greedy = CONFIGS[case["cfg"]]
    cfg = "limit=%s:greedy=%d" % (pos, greedy)
    S.counters["cfg:" + cfg] += 1
    if d.get("moved"):
        S.counters["parser-moved-before-use:" + d["moved"]] += 1
    if case.get("scale"):
        S.counters["scale:positionals>=%d" % max(x for x in [0, 17, 257, 4097, 65536] if x <= len(argv))] += 1
    if any(t == b"--" or not t.startswith(b"-") for t in argv):
        S.distinct.add(optrun.h64(case["cfg"], argv))
    kind, suffix, desc, ex, ob = optoracle.judge(d, {}, argv, line, case.get("mode", "A"))
    S.counters["overload:" + case.get("mode", "A")] += 1
    if b"--" in argv:
        i = argv.index(b"--")
        S.counters["first-dd-at:%d" % min(i, 5)] += 1
        if i > 0 and argv[i - 1] in (b"--opt",):
            S.counters["dd-after-option-awaiting-value"] += 1
        for t in argv[i + 1:]:
            if t.startswith(b"-"):
                S.counters["hostile-after-dd"] += 1
    if ex.reject is None:
        lim = {None: 0, "inf": None}.get(pos, pos)
        if lim is not None and len(ex.pos) == lim:
            S.counters["boundary:exactly-limit:" + cfg] += 1
    elif ex.reject == "too-many-positionals":
        S.counters["boundary:limit+1:" + cfg] += 1
    if kind in ("accepted-unexpectedly", "rejected-unexpectedly", "wrong-exception"):
        S.violation("%s:%s:%s" % (kind, suffix, cfg),
                    "%s; %s; observed %s" % (desc, optoracle.show(d, {}, argv), line[:300]), case)
        return
    if kind == "wrong-result":
        S.violation("wrong-result:%s:%s" % (suffix, cfg),
                    "%s; %s" % (desc, optoracle.show(d, {}, argv)), case)
        return
    if kind == "agree-accept":
        S.counters["accepted"] += 1
        S.counters["index-probes"] += len(ob.idx)
        bad = check_indices(ob)
        if bad:
            S.violation("index:%s" % ("negative" if "get(-" in bad[0] else "non-negative"),
                        "; ".join(bad) + " for " + str(optoracle.show(d, {}, argv)), case)
        elif len(S.samples) < 4 and len(ob.pos) >= 2 and case.get("rand"):
            S.samples.append(dict(optoracle.show(d, {}, argv),
                                  positionals=[p.decode("latin-1") for p in ob.pos],
                                  indices_probed=sorted(ob.idx)))
    else:
        S.counters["rejected:" + suffix] += 1


def finish(run, S, tier):
    for pos, greedy in CONFIGS:
        cfg = "limit=%s:greedy=%d" % (pos, greedy)
        if pos != "inf" and S.counters.get("boundary:limit+1:" + cfg, 0) == 0:
            run.inconc("limit+1 boundary never exercised for " + cfg)
        if pos not in ("inf",) and S.counters.get("boundary:exactly-limit:" + cfg, 0) == 0:
            run.inconc("exactly-limit boundary never exercised for " + cfg)
    for need in ("scale:positionals>=65536", "hostile-after-dd", "dd-after-option-awaiting-value", "index-probes"):
        if S.counters.get(need, 0) == 0:
            run.inconc("never exercised: " + need)
    return {"index_probes": S.counters.get("index-probes", 0)}


def run(tier, replay=None):
    return optcheck.main("c12", tier, replay)
