"""C05 - a log statement reaches the sink exactly once iff it is enabled, unaltered."""
import logcheck

RULE = ("generated C++ programs (3 logger types each: recording formatter, sink::sequence of 1-3 recording sinks, "
        "filter TYPE from and/or/not over severity_filter leaves incl. double negation; 14 statements per logger in "
        "both syntactic forms, tagged/untagged, 0-6 streamed items of 9 kinds) compiled once per compile-time minimum "
        "(6) and run under ALL threshold vectors (6^leaves); the events between a statement's markers must be exactly "
        "nothing (disabled) or one formatter call followed by one sink call per sequence member in declaration order "
        "with the statement's severity, tag and concatenated message; evaluations = statement executions; each is a "
        "distinct (program, minimum, threshold vector, statement) tuple, so distinct_nontrivial = evaluations "
        "(required: enabled, runtime-disabled and compile-time-disabled executions all observed)")


def run(tier, replay=None):
    return logcheck.main("C05", RULE, tier, replay)
