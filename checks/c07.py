"""C07 - fixed_vector behaves as a bounded sequence, including copy, move and assignment."""
import fvcheck

RULE = ("same executions as C06: after every operation of every sequence both containers of the harness are read "
        "through size(), operator[], at(), begin()/end(), cbegin()/cend(), rbegin()/rend(), crbegin()/crend(), "
        "data(), front()/back() and compared with a reference std::vector<int> of unique element ids bounded by the "
        "capacity; copies are checked for independence by continuing to operate on either container.  Sequences "
        "are enumerated by index, so all are distinct; distinct_nontrivial = sequences executed")


def run(tier, replay=None):
    return fvcheck.main("C07", "exploration", RULE, tier, replay, want_crashes=False)
