"""shared body of the C06 and C07 checks (one harness, two oracles)"""
import collections
import json

import build
import fvrun
import mtindep
import verdict


def main(prop, level, rule, tier, replay, want_crashes):
    run = verdict.Run(prop, tier, level, replay_of=replay)
    if replay:
        with open(replay) as fh:
            rcase = json.load(fh).get("case")
        if isinstance(rcase, dict) and rcase.get("phase") == "concurrent-independent-use":
            mtindep.replay(run, rcase, collections.Counter())
            return run.finish(10, 1, rule)
        return fvrun.replay(run, replay, prop)
    tags = ["gasan", "casan"]     # the second compiler runs every 4th job (unspecified evaluation order etc.)
    T = fvrun.run_all(tier, run.seed, tags)
    if not T.lvalue_ok:
        if prop == "C07":
            run.violation("does-not-compile:insert(const-T&)",
                          "fixed_vector<T>::insert(const T&) does not compile for std::string / int "
                          "(harness/fv_insert_lvalue_probe.cpp); the operation is excluded from the run",
                          {"probe": "fv_insert_lvalue_probe.cpp"})
        run.coverage["insert_lvalue_excluded"] = True
    for p, key, seq, detail, job in T.viol:
        if p != prop:
            continue
        names = fvrun.op_names(T.exe, job[0], job[2], seq)
        run.violation(key, "%s | operations: %s" % (detail, " ; ".join(names)),
                      {"type": job[0], "cap": job[2], "seq": seq, "tag": "gasan"})
    other = len([1 for v in T.viol if v[0] != prop])
    for key, job, index, report in T.crashes:
        seq, names = (None, None)
        if index >= 0:
            seq, names = fvrun.decode(T.exe, job, index, run.seed)
        case = {"type": job[0], "cap": job[2], "seq": seq or "", "tag": "gasan", "job": list(job), "index": index}
        if want_crashes:
            run.violation("crash:" + key, "%s\noperations: %s\n%s" % (key, names, report[-2500:]), case)
        else:
            run.inconc("the harness crashed (%s) - memory-safety is C06's verdict; this sequence could not "
                       "be observed" % key)
    for r in T.inconc[:3]:
        run.inconc(r)
    st = T.stats
    # containers created, filled, copied and destroyed by 2-16 threads at once, each thread its own containers
    conc = collections.Counter()
    mtindep.phase(run, "fv", tier, conc)
    st.update(conc)
    run.coverage["counters"] = dict(st)
    run.coverage["builds"] = tags
    run.coverage["verdicts_of_the_other_oracle_ignored"] = other
    for smp in T.samples:
        run.sample(smp, limit=5)
    build.prune()
    evaluations = st.get("sequences", 0)
    distinct = st.get("sequences", 0) if st.get("operations", 0) > st.get("sequences", 0) else 0
    return run.finish(evaluations, distinct, rule,
                      operations=st.get("operations", 0), observations=st.get("observations", 0),
                      injected_element_throws=st.get("injected-throws", 0),
                      elements_constructed=st.get("constructed", 0), elements_destroyed=st.get("destroyed", 0))
