"""C14 - parsing is repeatable.  Differential oracle, no model: the k-th parse on a
long-lived parser must equal the parse of the same vector (same environment) on a freshly
built identical parser."""
import random

import optcheck
import optgen
import optrun
from optmodel import parse_observed

PROP = "C14"
CONCURRENT = "parse"   # extra phase: lib/mtindep.py
LEVEL = "exploration"
RULE = ("sequences of 2-6 argument vectors (successes and every rejection class, environment "
        "changed between calls in a third of them) parsed on one parser object, each later "
        "parse compared with a freshly built identical parser; distinct = distinct "
        "(declaration, sequence) pairs in which at least one parse before the compared one "
        "touched state (set a value, counted a toggle, collected a positional or failed); plus a scale part: "
        "parsers with 17 ... 513 options in one group and sequences of 260 (thorough 700) calls; "
        "a concurrent phase (lib/mtindep.py) repeats fixed calls from 2-16 threads on thread-private parsers "
        "under ThreadSanitizer and compares with the serial results")

ENVS = [optgen.ENVP + b"A", optgen.ENVP + b"B", optgen.ENVP + b"C"]
ENV_VALUES = [b"envval", b"1", b"no", b"a;b", b"TRUE"]


def nchunks(tier):
    return 32 if tier == "quick" else 320


def _decls():
    fam = optgen.family()
    # the same families with environment bindings
    bound = []
    for d in fam[::3]:
        d2 = {k: v for k, v in d.items()}
        d2["opts"] = []
        for i, o in enumerate(d["opts"]):
            o2 = dict(o)
            if i % 2 == 0:
                o2["env"] = ENVS[i % 3]
            d2["opts"].append(o2)
        d2["label"] = d["label"] + "/env"
        bound.append(d2)
    envdef = optgen.D([optgen.M(b"inc", b"i", default=[b"d1", b"d2"], env=ENVS[0]),
                       optgen.O(b"out", b"o", default=b"dflt", env=ENVS[1]),
                       optgen.T(b"color", b"c", rev=True, default=1, env=ENVS[2]),
                       optgen.T(b"verbose", b"v", default=3),
                       optgen.M(b"lib", default=[b"x"]), optgen.O(b"level", default=b"3")], pos=1,
                      label="defaults-competing-with-env")
    return fam + bound + [envdef] * 6


def gen(tier, seed, chunk, nchunks_):
    rng = random.Random("c14-%d-%d" % (seed, chunk))
    decls = _decls()
    per = 320 if tier == "quick" else 640
    cases = []
    for k in range(per):
        if rng.random() < 0.8:
            d = decls[(chunk * per + k) % len(decls)]
        else:
            d = optgen.rand_decl(rng, env_rate=0.3, groups=True)
        pool = optgen.flat_pool(optgen.token_pool(d))
        benign = optgen.benign_tokens(d)
        envnames = sorted({o["env"] for o in d["opts"] if o.get("env")})
        nseq = rng.randint(2, 6)
        steps = []
        change_env = bool(envnames) and rng.random() < 0.5
        repeat_same = rng.random() < 0.3
        first = None
        for s in range(nseq):
            envops = []
            if change_env and rng.random() < 0.6:
                name = rng.choice(envnames)
                q = rng.random()
                if q < 0.3:
                    envops.append([name, None])
                elif q < 0.4:
                    envops.append([name, b""])
                else:
                    envops.append([name, rng.choice(ENV_VALUES)])
            style = rng.random()
            if repeat_same and first is not None and rng.random() < 0.7:
                argv = list(first)
            elif style < 0.55:
                argv = optgen.rand_argv(rng, pool, benign, 5, p_benign=0.95)
            elif style < 0.65:
                argv = []
            else:
                argv = optgen.rand_argv(rng, pool, benign, 4, p_benign=0.6)
            if first is None:
                first = argv
            step = {"env": envops, "argv": argv}
            if rng.random() < 0.3:
                step["mode"] = rng.choice(["V", "W"])     # this call goes through parse(std::vector<user_input>)
            steps.append(step)
        case = {"decl": d, "steps": steps}
        if len(d["opts"]) >= 2 and nseq >= 2 and rng.random() < 0.2:
            # the parser GROWS between two calls: it starts with the first k options and gains the others
            # just before call j; every call is compared with a fresh parser of the declaration as it is then
            case["grow"] = [rng.randint(1, len(d["opts"]) - 1), rng.randint(1, nseq - 1)]
        cases.append(case)
    # scale: many options in one group (beyond 8- and 16-bit counters) and long call sequences
    for k in range(3 if tier == "quick" else 8):
        n = rng.choice([17, 65, 255, 256, 257, 300, 513])
        opts = []
        for i in range(n):
            kind = "omt"[i % 3] if i < n - 6 else rng.choice("omt")
            nm = b"opt%d" % i
            if kind == "o":
                opts.append(optgen.O(nm, default=b"dflt" if i % 2 else None))
            elif kind == "m":
                opts.append(optgen.M(nm, default=[b"d"] if i % 4 == 1 else None))
            else:
                opts.append(optgen.T(nm))
        d = optgen.D(opts, pos="inf", label="%d-options-in-one-group" % n)

        def touch(i):
            o = opts[i]
            return [b"--" + o["name"]] if o["kind"] == "t" else [b"--" + o["name"] + b"=late"]
        idx = [n - 1, n - 2, (n % 256) % n, (n - 1) % 256, 0, n // 2, rng.randrange(n), rng.randrange(n)]
        steps = []
        for s_ in range(rng.randint(3, 5)):
            argv = []
            for i in rng.sample(idx, rng.randint(1, 3)):
                argv += touch(i)
            steps.append({"env": [], "argv": argv if rng.random() < 0.8 else []})
        steps.insert(rng.randrange(len(steps)), {"env": [], "argv": [b"--nope"]})
        cases.append({"decl": d, "steps": steps, "scale": "options>=%d" % max(x for x in [17, 65, 255, 256, 257] if x <= n)})
    if chunk % 8 == 0:
        d = decls[-1]
        pool = optgen.flat_pool(optgen.token_pool(d))
        benign = optgen.benign_tokens(d)
        nseq = 260 if tier == "quick" else 700
        cases.append({"decl": d, "scale": "calls>=%d" % nseq,
                      "steps": [{"env": [], "argv": optgen.rand_argv(rng, pool, benign, 3, p_benign=0.9)
                                 if rng.random() < 0.9 else []} for _ in range(nseq)]})
    return cases


def script(cid, case):
    d = case["decl"]
    actions = []
    envstate = {}
    universe = sorted({o["env"] for o in d["opts"] if o.get("env")} |
                      {e[0] for st in case["steps"] for e in st["env"]})
    states = []
    grow = case.get("grow")
    partial = dict(d, opts=d["opts"][:grow[0]]) if grow else None
    for si, st in enumerate(case["steps"]):
        if grow and si == grow[1]:
            for line in optrun.decl_lines(d, first_opt=grow[0]):
                actions.append(("raw", line))
        for name, val in st["env"]:
            if val is None:
                actions.append(("unsetenv", name))
                envstate.pop(name, None)
            else:
                actions.append(("setenv", name, val))
                envstate[name] = val
        states.append(dict(envstate))
        actions.append(("parse", st.get("mode", "A"), st["argv"]))
    for si, (st, es) in enumerate(zip(case["steps"], states)):
        for name in universe:
            if name in es:
                actions.append(("setenv", name, es[name]))
            else:
                actions.append(("unsetenv", name))
        actions.append(("decl", partial if grow and si < grow[1] else d))
        actions.append(("parse", st.get("mode", "A"), st["argv"]))
    text, _ = optrun.case_script(cid, partial if grow else d, {}, actions)
    return text


def _cls(line):
    return "ok" if line.startswith("P ok") else line[3:].strip()


def evaluate(case, lines, S):
    plines = [l for l in lines if l.startswith("P ")]
    n = len(case["steps"])
    if len(plines) != 2 * n:
        S.inconc.append("unexpected driver output: %d parse lines for %d steps" % (len(plines), n))
        return
    long_lived, fresh = plines[:n], plines[n:]
    if case.get("scale"):
        S.counters["scale:" + case["scale"]] += 1
    if case.get("grow"):
        S.counters["parsers-that-grew-between-two-calls"] += 1
    S.counters["calls-through-parse(vector<user_input>)"] += sum(1 for st in case["steps"] if st.get("mode") in ("V", "W"))
    touched = False
    for k in range(n):
        if k > 0:
            S.counters["later-parses-compared"] += 1
            prev = "ok" if _cls(fresh[k - 1]) == "ok" else "reject"
            this = "ok" if _cls(fresh[k]) == "ok" else "reject"
            S.counters["matrix:%s->%s" % (prev, this)] += 1
            if long_lived[k] != fresh[k]:
                what = "differs"
                a, b = _cls(long_lived[k]), _cls(fresh[k])
                if a != b:
                    what = "outcome:%s-instead-of-%s" % (a, b)
                else:
                    oa, ob = parse_observed(long_lived[k]), parse_observed(fresh[k])
                    kinds = []
                    if oa.o != ob.o:
                        kinds.append("option-value")
                    if oa.m != ob.m:
                        kinds.append("multi-list")
                    if oa.t != ob.t:
                        kinds.append("toggle-count")
                    if oa.pos != ob.pos:
                        kinds.append("positionals")
                    if oa.prov != ob.prov:
                        kinds.append("provided")
                    what = "result:" + (kinds[0] if kinds else "other")
                S.violation("later-parse-differs:after-%s:%s" % (prev, what),
                            "parse #%d on the long-lived parser gave\n  %s\nbut a fresh parser gives\n  %s\n"
                            "declaration %s, sequence %r" %
                            (k + 1, long_lived[k][:600], fresh[k][:600], case["decl"].get("label", "random"),
                             [st["argv"] for st in case["steps"]]),
                            case)
            if touched:
                S.counters["later-parses-after-state-change"] += 1
        if case["steps"][k]["argv"] or _cls(fresh[k]) != "ok":
            touched = True
    if touched:
        S.distinct.add(optrun.h64(optgen.decl_id(case["decl"]),
                                  [(st["env"], st["argv"]) for st in case["steps"]]))
    if len(S.samples) < 3:
        S.samples.append({"declaration": case["decl"].get("label", "random"),
                          "sequence": [[t.decode("latin-1") for t in st["argv"]] for st in case["steps"]],
                          "env_changes": [[(e[0].decode(), None if e[1] is None else e[1].decode())
                                           for e in st["env"]] for st in case["steps"]],
                          "outcomes": [_cls(l) for l in long_lived]})


def finish(run, S, tier):
    for cell in ("ok->ok", "ok->reject", "reject->ok", "reject->reject"):
        if S.counters.get("matrix:" + cell, 0) == 0:
            run.inconc("transition cell %s was never exercised" % cell)
    if not any(k.startswith("scale:options>=25") for k in S.counters):
        run.inconc("no parser with 255 or more options was exercised")
    if not any(k.startswith("scale:calls") for k in S.counters):
        run.inconc("no long call sequence was exercised")
    return {"later_parses_compared": S.counters.get("later-parses-compared", 0)}


def run(tier, replay=None):
    return optcheck.main("c14", tier, replay)
