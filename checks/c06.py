"""C06 - fixed_vector stays inside its storage and never exposes unfilled slots."""
import fvcheck

RULE = ("operation sequences over the full operation alphabet of fixed_vector (appends, positional emplace at "
        "every position in [begin, begin+capacity], range insert / push_back of every length 0..capacity+1 at "
        "every position, erase, pop, at/get at every index 0..capacity, copy/move construction, the three "
        "assignments, self-assignment, use of moved-from containers) for a copyable and a move-only "
        "instance-counting element type: exhaustive to depth 3 for capacities 0-3 (depth 4-6 for small "
        "capacities), seeded random sequences of length 12-60 for capacities 3-8; for the last operation of every "
        "exhaustive sequence and a random operation of every random one, every position at which an element "
        "copy/move can throw is enumerated.  Sequences are enumerated by index, so all are distinct; "
        "distinct_nontrivial = sequences executed (each has >= 3 operations)")


def run(tier, replay=None):
    return fvcheck.main("C06", "fault_enumeration", RULE, tier, replay, want_crashes=True)
