"""C02 - every spelling of a command line parses back to the assignment it spells.
Generator with inverse: a random assignment is rendered into an argument vector (choice of
long/short/`=` form per occurrence, bundling, permutation, placement of `--`) and parsed; the
oracle is the assignment itself (no model of the parser is consulted)."""
import random

import optcheck
import optgen
import optrun
import optoracle
from optmodel import parse_observed, check_indices

PROP = "C02"
CONCURRENT = "parse"   # extra phase: lib/mtindep.py (parsers used by several threads at once)
LEVEL = "exploration"
RULE = ("random declarations (no defaults, no env) x random assignments over a hostile value pool x "
        "random renderings (long/short, ' '/'=' form, bundled toggles, permuted items, `--` placement), "
        "plus the exhaustive product value pool x 4 spellings for one option and one multi-option; "
        "typed access on decimal texts as short, unsigned short, int, unsigned, long, long long, int64_t, unsigned long, "
        "unsigned long long, size_t, float, double, long double, std::string (values up to 2^64-1); distinct_nontrivial = distinct (declaration, vector) pairs with "
        "at least two rendered items")

VALUES = [b"", b" ", b"a b", b"=", b"a=b=c", b"=x", b"-x", b"--", b"--name", b"-", b"---", b";", b"a;b",
          b"\n", b"a\nb", b"\r\n", b"\t", b"\xc3\xa4\xff\x80", b"'\"\\$`", b"{}", b"%s%n", b"plain",
          b"file.txt", b"0", b"x" * 4096, b"-" * 300, b"no-x", b"--no-x=1", b" lead", b"trail ", b"\x01\x7f",
          b"fifteen-chars-x", b"sixteen-chars-xy", b"seventeen-chars-x", b"v" * 23, b"v" * 24, b"w" * 255,
          b"w" * 256, b"w" * 257, b"y" * 65536, b"z" * 70001]
BIG = [17, 64, 65, 127, 128, 129, 255, 256, 257, 300, 1000]
NUMS = [(b"0", 0), (b"7", 7), (b"007", 7), (b"+5", 5), (b"42", 42), (b"2147483647", 2147483647),
        (b"-12", -12), (b"-2147483648", -2147483648), (b"65535", 65535), (b"0100", 100), (b"012", 12),
        (b"0089", 89), (b"000042", 42), (b"-0010", -10), (b"08", 8), (b"+010", 10), (b"00", 0)]
DOUBLES = [b"3.25", b"-0.5", b"1e3", b"0.1", b"2", b"-7.5e-3", b"+4.0", b"010.5", b"00.50", b"0017"]
NUMS += [(b"4294967295", 4294967295), (b"4294967296", 4294967296), (b"9223372036854775807", 9223372036854775807),
         (b"-9223372036854775808", -9223372036854775808), (b"18446744073709551615", 18446744073709551615),
         (b"32767", 32767), (b"-32768", -32768), (b"32768", 32768), (b"2147483648", 2147483648),
         (b"-2147483649", -2147483649), (b"0065535", 65535)]
FLOATS = [b"3.25", b"-0.5", b"1e3", b"2", b"+4.0", b"010.5", b"00.50", b"0017", b"16777216", b"-0.125"]   # exact as float
RANGES = {"short": (-2 ** 15, 2 ** 15 - 1), "ushort": (0, 2 ** 16 - 1), "int": (-2 ** 31, 2 ** 31 - 1),
          "unsigned": (0, 2 ** 32 - 1), "long": (-2 ** 63, 2 ** 63 - 1), "llong": (-2 ** 63, 2 ** 63 - 1),
          "int64": (-2 ** 63, 2 ** 63 - 1), "ulong": (0, 2 ** 64 - 1), "ullong": (0, 2 ** 64 - 1),
          "size_t": (0, 2 ** 64 - 1)}


def _constructible(t):
    return not t.startswith(b"-") or t == b"--" or (len(t) > 1 and t[1:2] not in (b"-", b"=")) or \
        (t.startswith(b"--") and len(t) > 2 and t[2:3] not in (b"-", b"="))


def _int_types(num):
    return sorted(t for t, (lo, hi) in RANGES.items() if lo <= num <= hi)


def vclass(v):
    if v == b"":
        return "empty"
    if b"\n" in v or b"\r" in v:
        return "linebreak"
    if v.startswith(b"-"):
        return "leading-dash"
    if b"=" in v:
        return "has-eq"
    if len(v) >= 300:
        return "long"
    if any(c >= 0x80 or c < 0x20 for c in v):
        return "non-ascii-or-control"
    if v.strip() != v or b" " in v:
        return "blanks"
    return "plain"


def nchunks(tier):
    return 32 if tier == "quick" else 320


def _decl(rng):
    d = optgen.rand_decl(rng, nmax=7, env_rate=0.0, required_rate=0.0, groups=True)
    for o in d["opts"]:
        if o["kind"] != "t":
            o["default"] = None       # toggles keep their declared default (0, 1, 3 or none)
        o["optional"] = True
        o["rev"] = False
    return d


def _render(rng, d, asg):
    """asg: {'o': {name: value}, 'm': {name: [values]}, 't': {name: count}, 'pos': [..]}
    -> argv, forms used"""
    by = {o["name"]: o for o in d["opts"]}
    forms = []
    groups = []   # independent item streams; order inside a stream is kept

    def vt(o, v):
        sp = ["long-eq"]
        if not v.startswith(b"-"):
            sp.append("long-sp")
        if o.get("short"):
            sp.append("short-eq")
            if not v.startswith(b"-"):
                sp.append("short-sp")
        f = rng.choice(sp)
        forms.append(f)
        if f == "long-eq":
            return [b"--" + o["name"] + b"=" + v]
        if f == "long-sp":
            return [b"--" + o["name"], v]
        if f == "short-eq":
            return [b"-" + o["short"] + b"=" + v]
        return [b"-" + o["short"], v]

    for name, v in asg["o"].items():
        groups.append([("opt", vt(by[name], v))])
    for name, vs in asg["m"].items():
        if vs:
            groups.append([("opt", vt(by[name], v)) for v in vs])
    for name, k in asg["t"].items():
        o = by[name]
        if k >= 17 and o.get("short") and rng.random() < 0.5:
            # one bundle (or two) carrying all the occurrences
            forms.append("bundle-long")
            cutk = rng.choice([k, k, k // 2, 1])
            groups.append([("opt", [b"-" + o["short"] * cutk])] +
                          ([("opt", [b"-" + o["short"] * (k - cutk)])] if k > cutk else []))
            continue
        for _ in range(k):
            if o.get("short") and rng.random() < 0.6:
                forms.append("toggle-short")
                groups.append([("short", o["short"])])
            else:
                forms.append("toggle-long")
                groups.append([("opt", [b"--" + name])])
    # positionals: the first dash-leading one and everything behind it must follow `--`
    pos = asg["pos"]
    cut = next((i for i, p in enumerate(pos) if p.startswith(b"-")), len(pos))
    if pos and rng.random() < 0.4:
        cut = rng.randint(0, cut)
    inline, tail = pos[:cut], pos[cut:]
    greedy = d.get("greedy")
    if greedy:
        # in greedy mode everything behind the first positional is positional: keep all
        # positionals behind the options
        tail = inline + tail
        inline = []
    if inline:
        groups.append([("pos", [p]) for p in inline])
    # random interleaving preserving the order inside each group
    items = []
    heads = [list(g) for g in groups]
    while heads:
        i = rng.randrange(len(heads))
        items.append(heads[i].pop(0))
        if not heads[i]:
            heads.pop(i)
    argv = []
    i = 0
    while i < len(items):
        kind, payload = items[i]
        if kind == "short":
            letters = [payload]
            while i + 1 < len(items) and items[i + 1][0] == "short" and rng.random() < 0.7:
                i += 1
                letters.append(items[i][1])
            if len(letters) > 1:
                forms.append("bundle")
            argv.append(b"-" + b"".join(letters))
        else:
            argv.extend(payload)
        i += 1
    if tail or rng.random() < 0.1:
        forms.append("dd")
        argv.append(b"--")
        argv.extend(tail)
    return argv, forms


def _assignment(rng, d, typed, scale=False):
    asg = {"o": {}, "m": {}, "t": {}, "pos": [], "typed": []}
    for o in d["opts"]:
        r = rng.random()
        if scale and r < 0.5:
            # counts beyond small fixed-size buffers and narrow counters
            if o["kind"] == "t":
                asg["t"][o["name"]] = rng.choice(BIG)
                continue
            if o["kind"] == "m":
                asg["m"][o["name"]] = [rng.choice(VALUES[:31]) for _ in range(rng.choice(BIG[:10]))]
                continue
        if o["kind"] == "o" and r < 0.7:
            if typed and rng.random() < 0.4:
                if rng.random() < 0.6:
                    txt, num = rng.choice(NUMS)
                    asg["typed"].append(["o", o["name"], 0, rng.choice(_int_types(num)), txt])
                elif rng.random() < 0.5:
                    txt = rng.choice(DOUBLES)
                    asg["typed"].append(["o", o["name"], 0, rng.choice(["double", "ldouble"]), txt])
                else:
                    txt = rng.choice(FLOATS)
                    asg["typed"].append(["o", o["name"], 0, "float", txt])
                asg["o"][o["name"]] = txt
            else:
                asg["o"][o["name"]] = rng.choice(VALUES)
                if typed and rng.random() < 0.15:
                    asg["typed"].append(["o", o["name"], 0, "string", asg["o"][o["name"]]])
        elif o["kind"] == "m" and r < 0.7:
            n = rng.randint(1, 4)
            vs = []
            for j in range(n):
                if typed and rng.random() < 0.3:
                    txt, num = rng.choice(NUMS)
                    asg["typed"].append(["m", o["name"], j, rng.choice(_int_types(num)), txt])
                    vs.append(txt)
                elif typed and rng.random() < 0.1:
                    txt = rng.choice(FLOATS)
                    asg["typed"].append(["m", o["name"], j, rng.choice(["double", "float"]), txt])
                    vs.append(txt)
                else:
                    vs.append(rng.choice(VALUES))
            asg["m"][o["name"]] = vs
        elif o["kind"] == "t" and r < 0.7:
            asg["t"][o["name"]] = rng.randint(1, 4)
    lim = d.get("pos")
    if scale and lim == "inf" and rng.random() < 0.5:
        asg["pos"] = [rng.choice(VALUES[:31]) for _ in range(rng.choice(BIG))]
    elif lim is not None and lim != 0:
        n = rng.randint(0, 4 if lim == "inf" else lim)
        asg["pos"] = [rng.choice(VALUES) for _ in range(n)]
    return asg


def gen(tier, seed, chunk, nch):
    cases = []
    # exhaustive: value pool x spellings for one option and one multi-option
    d0 = optgen.D([optgen.O(b"opt", b"o"), optgen.M(b"mul", b"m"), optgen.T(b"tog", b"t")], pos="inf")
    k = 0
    for v in VALUES:
        for kind, name, s in (("o", b"opt", b"o"), ("m", b"mul", b"m")):
            for f in ("long-eq", "long-sp", "short-eq", "short-sp"):
                if f.endswith("sp") and v.startswith(b"-"):
                    continue
                k += 1
                if k % nch != chunk:
                    continue
                tok = {"long-eq": [b"--" + name + b"=" + v], "long-sp": [b"--" + name, v],
                       "short-eq": [b"-" + s + b"=" + v], "short-sp": [b"-" + s, v]}[f]
                asg = {"o": {}, "m": {}, "t": {}, "pos": [], "typed": []}
                if kind == "o":
                    asg["o"][name] = v
                else:
                    asg["m"][name] = [v]
                cases.append({"decl": d0, "asg": asg, "argv": tok, "forms": [f], "exh": True})
    rng = random.Random("c02-%d-%d" % (seed, chunk))
    n = (20000 if tier == "quick" else 500000) // nch
    for _ in range(n):
        d = _decl(rng)
        if rng.random() < 0.1:
            d["moved"] = rng.choice(["MOVE", "MOVEA"])
        scale = rng.random() < 0.02
        asg = _assignment(rng, d, typed=True, scale=scale)
        argv, forms = _render(rng, d, asg)
        if scale:
            forms.append("scale")
        case = {"decl": d, "asg": asg, "argv": argv, "forms": forms}
        if not scale and rng.random() < 0.3:
            # the same parser object has parsed before: nothing, or another assignment of the same declaration
            other, _ = _render(rng, d, _assignment(rng, d, typed=False))
            case["earlier"] = [rng.choice([[], other, other + [b"--nope-undeclared"]])]
        if rng.random() < 0.3 and all(_constructible(t) for t in argv):
            # the parse(std::vector<user_input>) overload spells the same assignment (only vectors whose tokens can
            # be turned into user_input objects at all: a lone `-`, `---x`, `-=x` cannot, that is the caller's error)
            case["mode"] = rng.choice(["V", "V", "W"])
        cases.append(case)
    return cases


def script(cid, case):
    actions = [("parse", "A", v) for v in case.get("earlier") or []]
    actions.append(("parse", case.get("mode", "A"), case["argv"]))
    for kind, name, idx, ty, txt in case["asg"].get("typed", []):
        actions.append(("as", kind, name, idx, ty))
    text, _ = optrun.case_script(cid, case["decl"], {}, actions)
    return text


def _worst(asg):
    order = ["linebreak", "leading-dash", "empty", "has-eq", "long", "non-ascii-or-control", "blanks", "plain"]
    cl = {vclass(v) for v in list(asg["o"].values()) + [x for vs in asg["m"].values() for x in vs] + asg["pos"]}
    for c in order:
        if c in cl:
            return c
    return "no-values"


def evaluate(case, lines, S):
    line = optoracle.judged_line(lines)
    if case.get("earlier"):
        S.counters["judged-parse-on-a-parser-with-a-history"] += 1
    if line is None:
        S.inconc.append("no parse line")
        return
    d, asg, argv = case["decl"], case["asg"], case["argv"]
    for f in set(case["forms"]):
        S.counters["form:" + f] += 1
    S.counters["overload:" + ("parse(vector<user_input>)" if case.get("mode") == "V" else "parse(argc, argv)")] += 1
    for v in list(asg["o"].values()) + [x for vs in asg["m"].values() for x in vs] + asg["pos"]:
        S.counters["value:" + vclass(v)] += 1
    if len(case["forms"]) >= 2 or case.get("exh"):
        S.distinct.add(optrun.h64(optgen.decl_id(d), argv))
    ob = parse_observed(line)
    shown = optoracle.show(d, {}, argv)
    if ob.exc is not None:
        S.violation("roundtrip-rejected:%s:%s" % (ob.exc, _worst(asg)),
                    "a vector that spells an assignment was rejected with %s: %s" % (ob.exc, shown), case)
        return
    diffs = []
    for o in d["opts"]:
        n = o["name"]
        if o["kind"] == "o":
            want = asg["o"].get(n)
            if ob.o.get(n, "missing") != want:
                diffs.append(("option-value:" + vclass(want or b""), "option %r: spelled %r, parsed %r" % (n, want, ob.o.get(n))))
            if (n in ob.prov) != (want is not None):
                diffs.append(("provided", "option %r provided flag wrong" % n))
        elif o["kind"] == "m":
            want = asg["m"].get(n, [])
            if ob.m.get(n) != want:
                diffs.append(("multi-list", "multi-option %r: spelled %r, parsed %r" % (n, want, ob.m.get(n))))
            if (n in ob.prov) != bool(want):
                diffs.append(("provided", "multi-option %r provided flag wrong" % n))
        else:
            spelled = asg["t"].get(n, 0)
            want = spelled if spelled > 0 else (o.get("default") or 0)
            if ob.t.get(n) != want:
                diffs.append(("toggle-count", "toggle %r (default %r): spelled %d times, counted %r" %
                              (n, o.get("default"), spelled, ob.t.get(n))))
            if (n in ob.prov) != (spelled > 0):
                diffs.append(("provided", "toggle %r provided flag wrong" % n))
    if ob.pos != asg["pos"]:
        diffs.append(("positionals", "positionals: spelled %r, parsed %r" % (asg["pos"], ob.pos)))
    elif len(ob.pos) <= 300:
        bad = check_indices(ob)     # the ordered list as seen through get(i) / operator[] for every index, both signs
        if bad:
            diffs.append(("positional-index-access", "; ".join(bad[:3])))
    tl = [l for l in lines if l.startswith("T ")]
    for (kind, name, idx, ty, txt), l in zip(asg.get("typed", []), tl):
        S.counters["typed:" + ty] += 1
        if not l.startswith("T ok "):
            diffs.append(("typed-access", "as<%s>(%r) failed: %s" % (ty, name, l)))
            continue
        got = l[5:].strip()
        try:
            if ty == "string":
                ok = got == "x" + txt.hex()
            elif ty in ("double", "float", "ldouble"):
                ok = float(got) == float(txt)
            else:
                ok = int(got) == int(txt)
        except ValueError:
            ok = False
        if not ok:
            diffs.append(("typed-access:" + ty, "as<%s>(%r) of text %r returned %s" % (ty, name, txt, got)))
    if diffs:
        S.violation("roundtrip-differs:" + diffs[0][0], "; ".join(x[1] for x in diffs) + " for " + str(shown), case)
    elif len(S.samples) < 4 and len(case["forms"]) >= 4:
        S.samples.append(dict(shown, forms=case["forms"]))


def finish(run, S, tier):
    need = ["form:long-eq", "form:long-sp", "form:short-eq", "form:short-sp", "form:toggle-short",
            "form:toggle-long", "form:bundle", "form:dd", "form:bundle-long", "form:scale"] + \
           ["value:" + c for c in ("empty", "linebreak", "leading-dash", "has-eq", "long",
                                   "non-ascii-or-control", "blanks", "plain")]
    miss = [n for n in need if S.counters.get(n, 0) == 0]
    if miss:
        run.inconc("spelling forms / value classes never exercised: %s" % miss)
    return {}


def run(tier, replay=None):
    return optcheck.main("c02", tier, replay)
