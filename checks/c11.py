"""C11 - a toggle counts its occurrences; reversal and env words follow fixed rules.
Model steps 5, 6, 8 restricted to toggles; exhaustive toggle declarations x occurrence patterns
x environment words."""
import itertools
import random

import optcheck
import optgen
import optoracle
import optrun
from optmodel import TRUTHY, FALSY

PROP = "C11"
CONCURRENT = "parse"   # extra phase: lib/mtindep.py (parsers used by several threads at once)
LEVEL = "exploration"
RULE = ("toggle declarations {letter or not} x {reversible or not} x {default none/0/1/3} x {env unbound, "
        "truthy, falsy} x all occurrence sequences up to length 3 (quick) / 4 (thorough) over "
        "{--t, -t, -tt, -tu, -ut, --no-t, --u, another option}; env words: the 30 documented ones, all "
        "their case variants, near misses and seeded random strings, with and without occurrences; "
        "distinct_nontrivial = distinct (declaration, env word, sequence) triples in which the toggle "
        "occurs at least twice or an environment word is consulted; plus a scale part: 64-1000 occurrences "
        "(separate long, separate short, one bundle, mixed) and declared defaults up to 2^31-1")

ENVN = optgen.ENVP + b"TG"
NEAR = [b"yes ", b" 1", b"2", b"-1", b"tru", b"truee", b"o", b"of", b"nO", b"yES", b"01", b"1.0", b"t",
        b"f", b"enable", b"disabled", b"\xc3\xbf", b"TRUE\n", b"no;", b"on=1", b"--yes", b"-y", b"Y ", b"00"]


def nchunks(tier):
    return 16 if tier == "quick" else 96


_GROUPED = [0]


def _decl(letter, rev, default, envbound):
    # in every second declaration the other toggle and the option live in named groups: a bundle such as -tu then
    # spans toggles of two groups
    _GROUPED[0] += 1
    g = _GROUPED[0] % 2 == 0
    kw = {"groups": [(b"first-group", b""), (b"second-group", b"about")]} if g else {}
    uu = optgen.T(b"uu", b"u", group=1 if g else None)
    opt = optgen.O(b"opt", b"p", group=0 if g else None)
    if letter == "digit":
        return optgen.D([optgen.T(b"tog", b"4", rev=rev, default=default, env=ENVN if envbound else None),
                         uu, opt], pos=None, **kw)
    return optgen.D([optgen.T(b"tog", b"t" if letter else None, rev=rev, default=default,
                              env=ENVN if envbound else None),
                     uu, opt], pos=None, **kw)


def _alphabet(letter):
    a = [b"--tog", b"--no-tog", b"--uu", b"--opt=v", b"-u"]
    if letter == "digit":
        a += [b"-4", b"-44", b"-4u", b"-u4"]
    elif letter:
        a += [b"-t", b"-tt", b"-tu", b"-ut"]
    return a


def _case_variants(w):
    out = set()
    s = w.decode()
    if len(s) > 5:
        cands = [s.lower(), s.upper(), s.capitalize(), s.swapcase(), s[0].lower() + s[1:].upper()]
    else:
        cands = ["".join(c) for c in itertools.product(*[(ch.lower(), ch.upper()) for ch in s])]
    for c in cands:
        out.add(c.encode())
    return out


def _words(rng, n_random):
    words = set(TRUTHY + FALSY)
    for w in TRUTHY + FALSY:
        words |= _case_variants(w)
    words |= set(NEAR)
    alpha = "yesnoYESNOtrueTRUEfalse01 -"
    for _ in range(n_random):
        words.add("".join(rng.choice(alpha) for _ in range(rng.randint(1, 6))).encode())
    words.discard(b"")
    return [b""] + sorted(words)     # set to the empty string: treated like unset


def gen(tier, seed, chunk, nch):
    rng = random.Random("c11-%d" % seed)   # the word list is shared by all chunks
    cases = []
    k = 0
    maxlen = 3 if tier == "quick" else 4
    for letter in (True, False, "digit"):
        for rev in (True, False):
            for default in (None, 0, 1, 3):
                for envw in (None, b"TRUE", b"no", b""):
                    d = _decl(letter, rev, default, envw is not None)
                    alpha = _alphabet(letter)
                    for L in range(0, (maxlen if envw != b"" else 2) + 1):
                        for seq in itertools.product(alpha, repeat=L):
                            k += 1
                            if k % nch != chunk:
                                continue
                            cases.append({"decl": d, "env": {ENVN: envw} if envw is not None else {}, "argv": list(seq),
                                          "dv": [letter, rev, default, "pattern"]})
    words = _words(rng, 200 if tier == "quick" else 3000)
    for letter in (True, False):
        for rev in (True, False):
            for default in (None, 1, 3):
                d = _decl(letter, rev, default, True)
                for w in words:
                    for argv in ([], [b"--uu"], [b"--tog"], [b"--no-tog"]):
                        k += 1
                        if k % nch != chunk:
                            continue
                        if argv and default is not None and tier == "quick" and w not in TRUTHY + FALSY:
                            continue
                        cases.append({"decl": d, "env": {ENVN: w}, "argv": argv,
                                      "dv": [letter, rev, default, "word"]})
    # scale: occurrence counts and defaults beyond narrow counters and small buffers
    for letter in (True, False, "digit"):
        sh = {True: b"t", "digit": b"4"}.get(letter)
        for rev in (True, False):
            for default in (None, 3, 127, 128, 200, 256, 65536, 2147483647):
                d = _decl(letter, rev, default, False)
                for n in (64, 65, 127, 128, 129, 255, 256, 257, 300, 1000):
                    seqs = [[b"--tog"] * n, [b"--tog"] * (n - 1) + [b"--uu", b"--tog"]]
                    if sh:
                        seqs += [[b"-" + sh] * n, [b"-" + sh * n], [b"-" + sh * (n // 2)] + [b"--tog"] * (n - n // 2),
                                 [b"-u" + sh * n], [b"-" + sh * (n - 1) + b"u" + sh]]
                    if rev:
                        seqs += [[b"--no-tog"] * n]
                    if default is not None:
                        seqs = seqs[:3] + [[], [b"--uu"]]
                    for seq in seqs:
                        k += 1
                        if k % nch != chunk:
                            continue
                        if tier == "quick" and default not in (None, 128, 65536) and n not in (128, 256, 300):
                            continue
                        cases.append({"decl": d, "env": {}, "argv": seq, "dv": [letter, rev, default, "scale"]})
    # mixed random: longer sequences separated by other arguments
    rng2 = random.Random("c11-%d-%d" % (seed, chunk))
    for _ in range((4000 if tier == "quick" else 60000) // nch):
        letter, rev = rng2.choice([True, True, False, "digit"]), rng2.random() < 0.5
        default = rng2.choice([None, 0, 1, 3])
        envw = rng2.choice([None, None, rng2.choice(TRUTHY + FALSY), rng2.choice(words)])
        d = _decl(letter, rev, default, envw is not None)
        alpha = _alphabet(letter)
        seq = [rng2.choice(alpha) for _ in range(rng2.randint(4, 9))]
        case = {"decl": d, "env": {ENVN: envw} if envw else {}, "argv": seq,
                "dv": [letter, rev, default, "random"]}
        if rng2.random() < 0.4:
            case["reuse"] = rng2.choice([[], [], [b"--uu"], [b"--tog"], [b"--opt=v"]])
        cases.append(case)
    return cases


def script(cid, case):
    if case.get("reuse"):
        # the count is the number of occurrences also on a parser that has parsed before
        text, _ = optrun.case_script(cid, case["decl"], case.get("env") or {},
                                     [("parse", "A", case["reuse"]), ("parse", "A", case["argv"])])
        return text
    return optoracle.single_script(cid, case)


def _wclass(w):
    if w is None:
        return "none"
    if w == b"":
        return "set-empty"
    if w in TRUTHY:
        return "truthy"
    if w in FALSY:
        return "falsy"
    if w.lower() in [x.lower() for x in TRUTHY + FALSY]:
        return "case-variant"
    return "other"


def evaluate(case, lines, S):
    plines = [l for l in lines if l.startswith("P ")]
    line = plines[-1] if plines else None
    if line is None:
        S.inconc.append("no parse line")
        return
    d, env, argv = case["decl"], case["env"], case["argv"]
    if case.get("reuse") is not None and "reuse" in case:
        S.counters["second-parse-on-the-same-parser"] += 1
    w = env.get(ENVN)
    occ = sum(1 for t in argv if t in (b"--tog", b"-t", b"-tt", b"-tu", b"-ut", b"--no-tog", b"-4", b"-44", b"-4u", b"-u4"))
    if case["dv"][3] == "scale":
        occ = len(argv) + 2
    else:
        S.counters["decl:letter=%s:rev=%s:default=%s" % tuple(case["dv"][:3])] += 1
    S.counters["part:" + case["dv"][3]] += 1
    S.counters["word:" + _wclass(w)] += 1
    if w is not None:
        S.extra.setdefault("words", set()).add(w)
    if occ >= 2 or (w is not None and occ == 0):
        S.distinct.add(optrun.h64(case["dv"], w, argv))
    kind, suffix, desc, ex, ob = optoracle.judge(d, env, argv, line)
    if kind == "agree-accept":
        S.counters["accepted"] += 1
        if len(S.samples) < 2 and occ >= 3:
            S.samples.append(dict(optoracle.show(d, env, argv), count=ex.t[b"tog"],
                                  provided=b"tog" in ex.prov))
        return
    if kind == "agree-reject":
        S.counters["rejected:" + suffix] += 1
        if len(S.samples) < 4 and suffix in ("toggle-env-word", "both-polarities") and len(S.samples) >= 2:
            S.samples.append(dict(optoracle.show(d, env, argv), outcome="parsing_error", reason=suffix))
        return
    S.violation("%s:%s:word=%s" % (kind, suffix, _wclass(w)),
                "%s; %s; observed %s" % (desc, optoracle.show(d, env, argv), line[:300]), case)


def finish(run, S, tier):
    for need in ("part:scale", "rejected:toggle-env-word", "rejected:both-polarities", "rejected:no-prefix-not-reversible",
                 "accepted", "word:truthy", "word:falsy", "word:case-variant", "word:other"):
        if S.counters.get(need, 0) == 0:
            run.inconc("class never exercised: " + need)
    words = S.extra.pop("words", set())
    run.coverage.pop("words", None)
    return {"distinct_env_words": len(words),
            "documented_words_seen": len([w for w in TRUTHY + FALSY if w in words])}


def run(tier, replay=None):
    return optcheck.main("c11", tier, replay)
