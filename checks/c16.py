"""C16 - hashing agrees with equality, and comparison with the member tuple."""
import os
import re
import subprocess

import collections
import json

import build
import driver
import mtindep
import verdict

PROP = "C16"
LEVEL = "exploration"
RULE = ("exhaustive fixed grids of member tuples: three tuple_operators structs (int8/int/long long; string/double "
        "incl. signed zeros/int; nested pair + tuple + unsigned), raw tuples, pairs, variants, nested tuple<variant, "
        "pair>, shared_ptr and unique_ptr; all pairs: x == y implies equal hashes, six operators equal a hand-written "
        "lexicographic comparison, trichotomy; all triples: transitivity; per-position and swap sensitivity of the "
        "hash (collision rate <= 1 %, measured 0); unordered_set / unordered_map: a seeded half of the grid is "
        "inserted and every key is found iff inserted; evaluations = pairs + triples + lookups; distinct_nontrivial "
        "= pairs compared (grid values are distinct by construction except the deliberately equal ones); long "
        "string components (15 ... 70000 characters differing in one character); a concurrent phase "
        "(lib/mtindep.py: 2-16 threads hashing thread-private values under ThreadSanitizer, compared with the "
        "serial results)")


def run(tier, replay=None):
    run_ = verdict.Run(PROP, tier, LEVEL, replay_of=replay)
    scale = 2 if tier == "quick" else 3
    # the plain build is there for the allocator: ASan's quarantine keeps freed addresses from being reused,
    # the address-reuse observations (pointer hashes) need a run in which they are
    tags = ["gasan", "casan", "plain"]
    import shutil
    if shutil.which("valgrind"):
        tags.append("memcheck")   # the smallest grids on the uninstrumented build under valgrind (uninitialised values)
    total = {}
    conc = collections.Counter()
    if replay:
        with open(replay) as fh:
            rcase = verdict.unhex_json(json.load(fh))["case"]
        if isinstance(rcase, dict) and rcase.get("phase") == "concurrent-independent-use":
            mtindep.replay(run_, rcase, conc)
            return run_.finish(10, 1, RULE)
    for tag in tags:
        exe = build.build_exe(tag if tag != "memcheck" else "plain", ["hashgrid.cpp"])
        env = dict(os.environ)
        env.update(driver.SAN_ENV)
        try:
            cmd = [exe, str(scale), str(run_.seed)] if tag != "memcheck" else \
                list(driver.MEMCHECK) + [exe, "1" if tier == "quick" else "2", str(run_.seed)]
            p = subprocess.run(cmd, capture_output=True, env=env, timeout=3600)
        except subprocess.TimeoutExpired:
            run_.inconc("wall-clock watchdog fired")
            continue
        out, err = p.stdout.decode("latin-1"), p.stderr.decode("latin-1", "replace")
        case = {"scale": scale, "seed": run_.seed, "build": tag}
        if p.returncode != 0:
            run_.violation("crash:" + driver.classify_report(err, p.returncode), err[-3000:], case)
            continue
        for line in out.split("\n"):
            if line.startswith("V "):
                f = line.split(" ", 2)
                run_.violation(f[1], f[2] if len(f) > 2 else "", case)
            elif line.startswith("SAMPLE ") and tag == tags[0]:
                run_.sample(line[7:])
            elif line.startswith("STATS"):
                for kv in line.split()[1:]:
                    k, v = kv.rsplit("=", 1)
                    if tag == tags[0]:
                        total[k] = int(v)
                    elif k == "pointer-addresses-reused":
                        total["pointer-addresses-reused:" + tag] = int(v)
    pairs = sum(v for k, v in total.items() if k.startswith("pairs:"))
    if not replay:
        # hashing, comparing and hash containers from 2-16 threads on thread-private values
        mtindep.phase(run_, "hash", tier, conc)
        total.update(conc)
    run_.coverage["counters"] = total
    run_.coverage["builds"] = tags
    if not replay and total.get("equal-but-distinct-pairs", 0) == 0:
        run_.inconc("no equal-but-distinct pair was compared")
    build.prune()
    return run_.finish(pairs + total.get("triples", 0) + total.get("lookups", 0), pairs, RULE, exhaustive=True,
                       pairs=pairs, triples=total.get("triples", 0), lookups=total.get("lookups", 0),
                       equal_but_distinct_pairs=total.get("equal-but-distinct-pairs", 0))
