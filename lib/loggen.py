"""Generator of logging programs and their expected event logs (C05, C10).

A program declares several logger types, each with a recording formatter, a sink::sequence of
recording sinks and a filter TYPE drawn from the grammar and/or/not over severity_filter<R,N>
leaves (each N used once per expression; double negation included), and a list of statements in
both syntactic forms, tagged and untagged, with 0-6 streamed items.  The program loops over ALL
threshold vectors of every logger and prints an event log; it is compiled once per compile-time
minimum severity.  expected_events() recomputes, from the program's metadata alone, what must be
observed for one statement under one configuration."""
import itertools
import os
import random

SEVS = ["trace", "debug", "info", "warn", "error", "fatal"]


# ---------------------------------------------------------------------------------------
# filter expressions: ('leaf', n) | ('and', a, b) | ('or', a, b) | ('not', a)
def gen_filter(rng, leaves):
    """expression using each leaf of `leaves` exactly once"""
    if len(leaves) == 1:
        e = ("leaf", leaves[0])
    else:
        k = rng.randint(1, len(leaves) - 1)
        a, b = gen_filter(rng, leaves[:k]), gen_filter(rng, leaves[k:])
        e = (rng.choice(["and", "or"]), a, b)
    r = rng.random()
    if r < 0.25:
        e = ("not", e)
    elif r < 0.35:
        e = ("not", ("not", e))
    return e


def filter_type(e, rec="R"):
    if e[0] == "leaf":
        return "nitro::log::filter::severity_filter<%s, %d>" % (rec, e[1])
    if e[0] == "not":
        return "nitro::log::filter::not_filter<%s >" % filter_type(e[1], rec)
    return "nitro::log::filter::%s_filter<%s, %s >" % (e[0], filter_type(e[1], rec), filter_type(e[2], rec))


def filter_eval(e, sev, thr):
    if e[0] == "leaf":
        return sev >= thr[e[1]]
    if e[0] == "not":
        return not filter_eval(e[1], sev, thr)
    a, b = filter_eval(e[1], sev, thr), filter_eval(e[2], sev, thr)
    return (a and b) if e[0] == "and" else (a or b)


def filter_show(e):
    if e[0] == "leaf":
        return "sev>=T%d" % e[1]
    if e[0] == "not":
        return "not(%s)" % filter_show(e[1])
    return "(%s %s %s)" % (filter_show(e[1]), e[0], filter_show(e[2]))


# ---------------------------------------------------------------------------------------
class _Ids:
    def __init__(self):
        self.sid = 0
        self.item = 1


def _gen_items(rng, ids, n, simple=False):
    items = []
    kinds = ["lit", "int", "lazy", "obj", "chr"] if simple else \
        ["lit", "str", "int", "dbl", "chr", "lazy", "lazy", "lazyp", "obj", "fn",
         # other argument TYPES: callables that are plain functions (pointer / reference), character buffers that are
         # larger than the text they hold, const char*, string_view, unsigned 64 bit, bool, float
         "fptr", "fref", "cbuf", "ccbuf", "cstr", "sv", "uns", "boolv", "flt"]
    for _ in range(n):
        kind = rng.choice(kinds)
        if kind == "lit":
            v = rng.choice(["msg", "a b", "", "{}", "x=1;", "%s"])
        elif kind == "str":
            v = rng.choice(["string", "", "two words", "\\t"])
        elif kind == "int":
            v = rng.choice([0, 7, -12, 123456, 255])
        elif kind == "dbl":
            v = rng.choice([2.5, -0.125, 1e6, 3.0])
        elif kind == "chr":
            v = rng.choice(["x", ":", " "])
        elif kind in ("cbuf", "ccbuf", "cstr", "sv"):
            v = rng.choice(["buf", "b", "", "two words", "x=1"])
        elif kind == "uns":
            v = rng.choice([18446744073709551615, 4294967296, 0])
        elif kind == "boolv":
            v = rng.choice([0, 1])
        elif kind == "flt":
            v = rng.choice([2.5, -0.125, 1024.0])
        else:
            v = ids.item
        items.append({"kind": kind, "v": v, "id": ids.item})
        ids.item += 1
    return items


def _stmt(rng, ids, sev, form, nitems, simple=False, tagged=None):
    items = _gen_items(rng, ids, nitems, simple)
    cuts = sorted(rng.sample(range(1, max(2, nitems)), min(max(0, nitems - 1), rng.randint(0, 2)))) \
        if nitems > 1 else []
    if tagged is None:
        tagged = rng.random() < 0.4
    st = {"id": ids.sid, "sev": sev, "form": form, "tag": ("tag%d" % ids.sid) if tagged else None,
          "items": items, "cuts": cuts, "nested": []}
    ids.sid += 1
    return st


def gen_program(seed, nloggers=3, nstmts=14):
    rng = random.Random("loggen-%d" % seed)
    leaf = 1
    loggers = []
    for k in range(nloggers):
        nl = [1, 2, 3, 2, 3][k % 5] if k else 3
        leaves = list(range(leaf, leaf + nl))
        leaf += nl
        nsinks = [2, 3, 1][k % 3]   # every program has sequences of 1, 2 and 3 members
        loggers.append({"k": k, "leaves": leaves, "filter": gen_filter(rng, leaves),
                        "sinks": ["S%d_%d" % (k, j) for j in range(nsinks)], "stmts": []})
    # logger 1 always has a plain threshold filter, so that simple mistakes cannot hide behind a
    # complicated expression
    if nloggers > 1:
        loggers[1]["filter"] = ("leaf", loggers[1]["leaves"][0])
        loggers[1]["leaves"] = loggers[1]["leaves"][:1]
    ids = _Ids()
    for lg in loggers:
        for j in range(nstmts):
            sev = j % 6 if j < 6 else rng.randrange(6)
            form = "expr" if (j % 2 == 0) else "named"
            nitems = rng.choice([0, 1, 2, 3, 4, 6])
            if j < 2:
                nitems = max(nitems, 3)
            st = _stmt(rng, ids, sev, form, nitems)
            lg["stmts"].append(st)
        # statements whose lifetimes OVERLAP on one thread (each needs its own record and buffer):
        # (a) a named stream with another complete statement between its insertions
        st = _stmt(rng, ids, rng.randrange(6), "named", 4)
        st["cuts"] = [1, 3]
        st["nested"].append({"how": "between", "after_part": 0,
                             "stmt": _stmt(rng, ids, rng.randrange(6), "expr", 2, simple=True)})
        st["nested"].append({"how": "between", "after_part": 1,
                             "stmt": _stmt(rng, ids, rng.randrange(2, 6), "named", 3, simple=True)})
        lg["stmts"].append(st)
        # (b) two named streams alive at the same time, insertions interleaved
        st = _stmt(rng, ids, rng.randrange(6), "named", 3)
        st["cuts"] = [1, 2]
        inner = _stmt(rng, ids, rng.randrange(6), "named", 2, simple=True)
        inner["cuts"] = [1]
        st["nested"].append({"how": "alive", "around_part": 1, "stmt": inner})
        lg["stmts"].append(st)
        # (c) a lazily evaluated callable that itself logs
        for form in ("expr", "named"):
            st = _stmt(rng, ids, rng.randrange(6), form, 2, simple=True)
            inner = _stmt(rng, ids, rng.randrange(6), "expr", 2, simple=True)
            it = {"kind": "lazylog", "v": ids.item, "id": ids.item, "stmt": inner}
            ids.item += 1
            st["items"].insert(1, it)
            st["cuts"] = [1] if form == "named" else []
            st["nested"].append({"how": "lazylog", "stmt": inner})
            lg["stmts"].append(st)
        # (d) a stream manipulator must not leak into later statements
        st = _stmt(rng, ids, 5, "expr", 1, simple=True)
        st["items"].append({"kind": "hexint", "v": 255, "id": ids.item})
        ids.item += 1
        lg["stmts"].append(st)
        st = _stmt(rng, ids, 5, "named", 0)
        st["items"] = [{"kind": "int", "v": 255, "id": ids.item}, {"kind": "dbl", "v": 2.5, "id": ids.item + 1}]
        ids.item += 2
        lg["stmts"].append(st)
        # (g) a statement issued from a destructor while an exception is unwinding the stack
        for form in ("expr", "named"):
            st = _stmt(rng, ids, rng.randrange(6), form, 3, simple=True)
            st["unwinding"] = True
            lg["stmts"].append(st)
        # (e) the tag is taken when the statement starts: a named stream whose tag argument is a
        # variable that changes before the stream object dies
        st = _stmt(rng, ids, rng.randrange(3, 6), "named", 2, simple=True, tagged=True)
        st["tagvar"] = True
        lg["stmts"].append(st)
        # (f) an inserted object that puts the buffer into a failed state: later callables of an
        # emitted record are still called exactly once (their text is discarded by the stream)
        for form in ("expr", "named"):
            st = _stmt(rng, ids, 5, form, 1, simple=True)
            st["items"].append({"kind": "failobj", "v": ids.item, "id": ids.item})
            st["items"].append({"kind": "lazy", "v": ids.item + 1, "id": ids.item + 1})
            st["items"].append({"kind": "obj", "v": ids.item + 2, "id": ids.item + 2})
            st["items"].append({"kind": "lazyp", "v": ids.item + 3, "id": ids.item + 3})
            ids.item += 4
            st["cuts"] = [2, 4] if form == "named" else []
            lg["stmts"].append(st)
        # (h) scale: messages of 4 KiB and more, callables streamed after that much text, many items
        if lg["k"] < 2:
            def mk(kind, v=None):
                it = {"kind": kind, "v": ids.item if v is None else v, "id": ids.item}
                ids.item += 1
                return it
            n1 = rng.choice([4096, 4097, 5000, 20000, 70000])
            st = _stmt(rng, ids, rng.randrange(3, 6), "expr", 0)
            st["items"] = [mk("lazy"), mk("longstr", ("z", n1)), mk("lazy"), mk("obj"), mk("lazyp"), mk("lit", "end")]
            lg["stmts"].append(st)
            st = _stmt(rng, ids, rng.randrange(3, 6), "named", 0)
            st["items"] = [mk("longstr", ("y", 4095)), mk("lazy"), mk("lazy"), mk("obj"), mk("fn"), mk("chr", ":")]
            st["cuts"] = [1, 3]
            lg["stmts"].append(st)
            st = _stmt(rng, ids, rng.randrange(3, 6), rng.choice(["expr", "named"]), 0)
            st["items"] = []
            for j in range(40):
                st["items"].append(mk("longstr", ("w", rng.choice([15, 16, 17, 255, 256, 257, 1500]))) if j % 8 == 3
                                   else mk(rng.choice(["lazy", "int", "chr", "obj", "lazyp"]),
                                           {"int": 7, "chr": "x"}.get(None)))
            for it in st["items"]:
                if it["kind"] == "int":
                    it["v"] = 123456
                elif it["kind"] == "chr":
                    it["v"] = ":"
            st["cuts"] = [10, 30] if st["form"] == "named" else []
            lg["stmts"].append(st)
    return {"seed": seed, "loggers": loggers}


def all_statements(lg):
    """every statement of a logger incl. nested ones: (statement, parent or None, how)"""
    for st in lg["stmts"]:
        yield st, None, None
        for n in st["nested"]:
            yield n["stmt"], st, n["how"]


def _ltext(it):
    """text returned by a lazily evaluated callable: every second one is longer than a small-string buffer"""
    return "L%d" % it["id"] if it["id"] % 2 else "L%d-a-text-longer-than-the-small-string-buffer" % it["id"]


def item_text(it):
    k, v = it["kind"], it["v"]
    if k in ("lit", "str"):
        return v.replace("\\t", "\t")
    if k == "int":
        return str(v)
    if k == "dbl":
        return "%g" % v
    if k == "chr":
        return v
    if k in ("lazy", "fn", "fptr", "fref"):
        return _ltext(it)
    if k in ("cbuf", "ccbuf", "cstr", "sv"):
        return v
    if k in ("uns", "boolv"):
        return str(v)
    if k == "flt":
        return "%g" % v
    if k == "lazyp":
        return "P%d" % it["id"]
    if k == "lazylog":
        return "G%d" % it["id"]
    if k == "hexint":
        return "%x" % v
    if k == "longstr":
        return v[0] * v[1]
    if k == "failobj":
        return "F%d" % it["id"]
    return "O%d" % it["id"]


def item_cpp(it):
    k, v = it["kind"], it["v"]
    if k == "lit":
        return '"%s"' % v
    if k == "str":
        return 'std::string("%s")' % v
    if k == "int":
        return str(v)
    if k == "dbl":
        return repr(float(v))
    if k == "chr":
        return "'%s'" % v
    if k == "lazy":
        return '[] { ev("LAZY %d"); return std::string("%s"); }' % (it["id"], _ltext(it))
    if k == "lazyp":
        return '[]() -> const char* { ev("LAZY %d"); return "P%d"; }' % (it["id"], it["id"])
    if k == "fptr":
        return "&lazyfn_%d" % it["id"]
    if k == "fref":
        return "lazyfn_%d" % it["id"]
    if k == "cbuf":
        return "cbuf_%d" % it["id"]
    if k == "ccbuf":
        return "ccbuf_%d" % it["id"]
    if k == "cstr":
        return 'static_cast<const char*>("%s")' % v
    if k == "sv":
        return 'std::string_view("%s")' % v
    if k == "uns":
        return "%dULL" % v
    if k == "boolv":
        return "true" if v else "false"
    if k == "flt":
        return "%rf" % float(v)
    if k == "fn":
        return 'std::function<std::string()>([] { ev("LAZY %d"); return std::string("%s"); })' % (it["id"], _ltext(it))
    if k == "lazylog":
        return '[] { ev("LAZY %d"); %s return std::string("G%d"); }' % (it["id"], it["_code"], it["id"])
    if k == "hexint":
        return "std::hex << %d" % v
    if k == "longstr":
        return "std::string(%d, '%s')" % (v[1], v[0])
    if k == "failobj":
        return "Failing{%d}" % it["id"]
    return "Counting{%d}" % it["id"]


def _parts(st, items_cpp):
    parts, prev = [], 0
    for c in st["cuts"] + [len(items_cpp)]:
        if c > prev:
            parts.append(items_cpp[prev:c])
        prev = c
    return parts


def stmt_code(k, st, ind, var):
    """C++ lines of one statement incl. its markers and nested statements"""
    L = []
    sev = SEVS[st["sev"]]
    tag = '"%s"' % st["tag"] if st["tag"] else ""
    for it in st["items"]:
        if it["kind"] == "lazylog":
            it["_code"] = " ".join(x.strip() for x in stmt_code(k, it["stmt"], "", "q"))
    items = [item_cpp(it) for it in st["items"]]
    L.append(ind + 'ev("S %d");' % st["id"])
    if st["form"] == "expr":
        L.append(ind + "L%d::%s(%s)%s;" % (k, sev, tag, "".join(" << " + i for i in items)))
    else:
        L.append(ind + "{")
        if st.get("tagvar"):
            L.append(ind + "    std::string tg%d = %s;" % (st["id"], tag))
            L.append(ind + "    auto %s = L%d::%s(tg%d);" % (var, k, sev, st["id"]))
            L.append(ind + "    tg%d = \"CHANGED-AFTER-THE-STATEMENT-STARTED\";" % st["id"])
            L.append(ind + "    tg%d[0] = 'c';" % st["id"])
        else:
            L.append(ind + "    auto %s = L%d::%s(%s);" % (var, k, sev, tag))
        parts = _parts(st, items)
        between = {n["after_part"]: n["stmt"] for n in st["nested"] if n["how"] == "between"}
        alive = {n["around_part"]: n["stmt"] for n in st["nested"] if n["how"] == "alive"}
        for pi, p in enumerate(parts):
            if pi in alive:
                inner = alive[pi]
                iit = [item_cpp(it) for it in inner["items"]]
                ip = _parts(inner, iit)
                L.append(ind + '    ev("S %d");' % inner["id"])
                L.append(ind + "    {")
                L.append(ind + "        auto %s2 = L%d::%s(%s);" % (var, k, SEVS[inner["sev"]],
                                                                  '"%s"' % inner["tag"] if inner["tag"] else ""))
                if ip:
                    L.append(ind + "        %s2%s;" % (var, "".join(" << " + i for i in ip[0])))
                L.append(ind + "        %s%s;" % (var, "".join(" << " + i for i in p)))
                for rest in ip[1:]:
                    L.append(ind + "        %s2%s;" % (var, "".join(" << " + i for i in rest)))
                L.append(ind + "        (void)%s2;" % var)
                L.append(ind + "    }")
                L.append(ind + '    ev("E %d");' % inner["id"])
            else:
                L.append(ind + "    %s%s;" % (var, "".join(" << " + i for i in p)))
            if pi in between:
                L.extend(stmt_code(k, between[pi], ind + "    ", var + "b"))
        L.append(ind + "    (void)%s;" % var)
        L.append(ind + "}")
    L.append(ind + 'ev("E %d");' % st["id"])
    return L


def source(prog):
    L = []
    A = L.append
    A("// generated by lib/loggen.py, seed %d" % prog["seed"])
    A("#include <nitro/log/log.hpp>")
    for h in ("attribute/message", "attribute/severity", "attribute/tag", "attribute/timestamp",
              "filter/severity_filter", "filter/and_filter", "filter/or_filter", "filter/not_filter",
              "sink/sequence"):
        A("#include <nitro/log/%s.hpp>" % h)
    A("#include <cstdio>\n#include <functional>\n#include <iostream>\n#include <sstream>\n#include <string>\n#include <string_view>\n"
      "#include <type_traits>")
    A("using nitro::log::severity_level;")
    A("static std::string hexs(const std::string& s) { static const char* d = \"0123456789abcdef\"; "
      "if (s.size() > 400) { unsigned long long h = 1469598103934665603ULL; for (unsigned char c : s) { h ^= c; "
      "h *= 1099511628211ULL; } char b[64]; std::snprintf(b, sizeof b, \"h%zu:%016llx\", s.size(), h); return b; } "
      "std::string r = \"x\"; for (unsigned char c : s) { r.push_back(d[c >> 4]); r.push_back(d[c & 15]); } return r; }")
    A("static void ev(const std::string& s) { std::fputs(s.c_str(), stdout); std::fputc('\\n', stdout); }")
    A("struct Counting { int id; };")
    A("static std::ostream& operator<<(std::ostream& s, const Counting& c) { ev(\"INS \" + std::to_string(c.id)); "
      "return s << 'O' << c.id; }")
    A("struct Failing { int id; };")
    A("static std::ostream& operator<<(std::ostream& s, const Failing& f) { ev(\"INS \" + std::to_string(f.id)); "
      "s << 'F' << f.id; s.setstate(std::ios::failbit); return s; }")
    for lg in prog["loggers"]:
        for st, _, _ in all_statements(lg):
            for it in st["items"]:
                if it["kind"] in ("fptr", "fref"):
                    A('static std::string lazyfn_%d() { ev("LAZY %d"); return std::string("%s"); }' % (it["id"], it["id"], _ltext(it)))
                elif it["kind"] == "cbuf":
                    A('static char cbuf_%d[32] = "%s";' % (it["id"], it["v"]))
                elif it["kind"] == "ccbuf":
                    A('static const char ccbuf_%d[16] = "%s";' % (it["id"], it["v"]))
    A("using R = nitro::log::record<nitro::log::tag_attribute, nitro::log::message_attribute, "
      "nitro::log::severity_attribute, nitro::log::timestamp_attribute>;")
    for lg in prog["loggers"]:
        k = lg["k"]
        for s in lg["sinks"]:
            # the member counts its own deliveries (per-instance state): a sequence must deliver every
            # record to the SAME member objects
            A("struct %s { long n = 0; void sink(severity_level s, const std::string& rec) { ++n; ev(\"SINK %s \" + "
              "std::to_string(static_cast<int>(s)) + \" \" + hexs(rec) + \" #\" + std::to_string(n)); } };" % (s, s))
        A("template <typename Rec> struct Fmt%d { std::string format(Rec& r) { ev(\"FMT %d \" + "
          "std::to_string(static_cast<int>(r.severity())) + \" \" + hexs(r.tag()) + \" \" + hexs(r.message())); "
          "return \"<%d|\" + std::to_string(static_cast<int>(r.severity())) + \"|\" + r.tag() + \"|\" + r.message() + \">\"; } };"
          % (k, k, k))
        A("template <typename Rec> using Filter%d = %s;" % (k, filter_type(lg["filter"], "Rec")))
        A("using L%d = nitro::log::logger<R, Fmt%d, nitro::log::sink::sequence<%s >, Filter%d>;" %
          (k, k, ", ".join(lg["sinks"]), k))
    for lg in prog["loggers"]:
        k = lg["k"]
        for st in lg["stmts"]:
            if st.get("unwinding"):
                A("struct Unwind%d { ~Unwind%d() {" % (st["id"], st["id"]))
                for line in stmt_code(k, st, "    ", "s"):
                    A(line)
                A("} };")
        A("static void run_%d() {" % k)
        for st in lg["stmts"]:
            if st.get("unwinding"):
                A("    try { Unwind%d guard; throw %d; } catch (int) { }" % (st["id"], st["id"]))
                continue
            for line in stmt_code(k, st, "    ", "s"):
                A(line)
        A("}")
    A("template <typename T> static int is_null() { return std::is_same<T, nitro::log::detail::null_stream>::value ? 1 : 0; }")
    A("int main() {")
    A("    static char buf[1 << 16]; std::setvbuf(stdout, buf, _IOFBF, sizeof buf);")
    for lg in prog["loggers"]:
        k = lg["k"]
        for si, s in enumerate(SEVS):
            A('    ev("TYPE %d %d " + std::to_string(is_null<decltype(L%d::%s())>()));' % (k, si, k, s))
    for lg in prog["loggers"]:
        k = lg["k"]
        leaves = lg["leaves"]
        ind = "    "
        for n in leaves:
            A(ind + "for (int t%d = 0; t%d < 6; ++t%d) {" % (n, n, n))
            ind += "    "
        for n in leaves:
            A(ind + "nitro::log::filter::severity_filter<R, %d>::set_severity(static_cast<severity_level>(t%d));" % (n, n))
        A(ind + 'ev("CFG %d"%s);' % (k, "".join(' + std::string(" ") + std::to_string(t%d)' % n for n in leaves)))
        A(ind + "run_%d();" % k)
        for n in leaves:
            ind = ind[:-4]
            A(ind + "}")
    A('    ev("DONE");')
    A("    return 0;\n}")
    return "\n".join(L) + "\n"


def enabled(lg, st, minsev, thr):
    return st["sev"] >= minsev and filter_eval(lg["filter"], st["sev"], thr)


def expected_events(lg, st, minsev, thr, parent=None, how=None):
    """-> (lazy_and_ins_events, fmt_and_sink_events) for one statement under one configuration.
    A statement nested in a lazily evaluated callable is executed only if its parent is emitted."""
    if how == "lazylog" and not enabled(lg, parent, minsev, thr):
        return [], []
    if not enabled(lg, st, minsev, thr):
        return [], []
    sev = st["sev"]
    lazy = []
    msg = ""
    failed = False
    for it in st["items"]:
        if it["kind"] in ("lazy", "lazyp", "fn", "lazylog", "fptr", "fref"):
            lazy.append("LAZY %d" % it["id"])
        elif it["kind"] in ("obj", "failobj"):
            lazy.append("INS %d" % it["id"])
        if not failed:
            msg += item_text(it)
        if it["kind"] == "failobj":
            failed = True     # the buffer is in a failed state: later insertions leave no text
    tag = st["tag"] or ""
    hx = hexs
    rec = "<%d|%d|%s|%s>" % (lg["k"], sev, tag, msg)
    out = ["FMT %d %d %s %s" % (lg["k"], sev, hx(tag), hx(msg))]
    for s in lg["sinks"]:
        out.append("SINK %s %d %s" % (s, sev, hx(rec)))
    return lazy, out


def hexs(s):
    """the event log's encoding of a string: hex, or length and FNV-1a digest beyond 400 bytes"""
    b = s.encode("latin-1")
    if len(b) > 400:
        h = 1469598103934665603
        for c in b:
            h = ((h ^ c) * 1099511628211) & 0xffffffffffffffff
        return "h%d:%016x" % (len(b), h)
    return "x" + b.hex()


def item_owner(prog):
    """item id -> statement id (LAZY / INS events are attributed through the item id, because the
    insertions of two overlapping statements interleave)"""
    m = {}
    for lg in prog["loggers"]:
        for st, _, _ in all_statements(lg):
            for it in st["items"]:
                m[it["id"]] = st["id"]
    return m


def parse_log(text, owner=None):
    """-> (types {(k, sev): is_null}, {(k, thr tuple): {stmt id: [event lines]}}, done).
    FMT / SINK events belong to the innermost open statement, LAZY / INS events to the statement
    that owns the item (owner: item id -> statement id)."""
    types = {}
    cfgs = {}
    cur_cfg = None
    stack = []
    done = False
    owner = owner or {}
    for line in text.split("\n"):
        if not line:
            continue
        f = line.split(" ")
        if f[0] == "TYPE":
            types[(int(f[1]), int(f[2]))] = int(f[3])
        elif f[0] == "CFG":
            cur_cfg = (int(f[1]), tuple(int(x) for x in f[2:]))
            cfgs[cur_cfg] = {}
            stack = []
        elif f[0] == "S":
            stack.append(int(f[1]))
            cfgs[cur_cfg].setdefault(int(f[1]), [])
        elif f[0] == "E":
            if stack and stack[-1] == int(f[1]):
                stack.pop()
            else:
                cfgs[cur_cfg].setdefault(-1, []).append("unbalanced " + line)
        elif f[0] == "DONE":
            done = True
        elif cur_cfg is not None:
            if f[0] in ("LAZY", "INS") and int(f[1]) in owner:
                cfgs[cur_cfg].setdefault(owner[int(f[1])], []).append(line)
            elif not stack:
                cfgs[cur_cfg].setdefault(-1, []).append(line)
            else:
                cfgs[cur_cfg][stack[-1]].append(line)
    return types, cfgs, done
