"""Generator of logging programs and their expected event logs (C05, C10).

A program declares several logger types, each with a recording formatter, a sink::sequence of
recording sinks and a filter TYPE drawn from the grammar and/or/not over severity_filter<R,N>
leaves (each N used once per expression; double negation included), and a list of statements in
both syntactic forms, tagged and untagged, with 0-6 streamed items.  The program loops over ALL
threshold vectors of every logger and prints an event log; it is compiled once per compile-time
minimum severity.  expected_events() recomputes, from the program's metadata alone, what must be
observed for one statement under one configuration."""
import itertools
import os
import random

SEVS = ["trace", "debug", "info", "warn", "error", "fatal"]


# ---------------------------------------------------------------------------------------
# filter expressions: ('leaf', n) | ('and', a, b) | ('or', a, b) | ('not', a)
def gen_filter(rng, leaves):
    """expression using each leaf of `leaves` exactly once"""
    if len(leaves) == 1:
        e = ("leaf", leaves[0])
    else:
        k = rng.randint(1, len(leaves) - 1)
        a, b = gen_filter(rng, leaves[:k]), gen_filter(rng, leaves[k:])
        e = (rng.choice(["and", "or"]), a, b)
    r = rng.random()
    if r < 0.25:
        e = ("not", e)
    elif r < 0.35:
        e = ("not", ("not", e))
    return e


def filter_type(e, rec="R"):
    if e[0] == "leaf":
        return "nitro::log::filter::severity_filter<%s, %d>" % (rec, e[1])
    if e[0] == "not":
        return "nitro::log::filter::not_filter<%s >" % filter_type(e[1], rec)
    return "nitro::log::filter::%s_filter<%s, %s >" % (e[0], filter_type(e[1], rec), filter_type(e[2], rec))


def filter_eval(e, sev, thr):
    if e[0] == "leaf":
        return sev >= thr[e[1]]
    if e[0] == "not":
        return not filter_eval(e[1], sev, thr)
    a, b = filter_eval(e[1], sev, thr), filter_eval(e[2], sev, thr)
    return (a and b) if e[0] == "and" else (a or b)


def filter_show(e):
    if e[0] == "leaf":
        return "sev>=T%d" % e[1]
    if e[0] == "not":
        return "not(%s)" % filter_show(e[1])
    return "(%s %s %s)" % (filter_show(e[1]), e[0], filter_show(e[2]))


# ---------------------------------------------------------------------------------------
def gen_program(seed, nloggers=3, nstmts=14):
    rng = random.Random("loggen-%d" % seed)
    leaf = 1
    loggers = []
    for k in range(nloggers):
        nl = [1, 2, 3, 2, 3][k % 5] if k else 3
        leaves = list(range(leaf, leaf + nl))
        leaf += nl
        nsinks = rng.choice([1, 2, 2, 3])
        loggers.append({"k": k, "leaves": leaves, "filter": gen_filter(rng, leaves),
                        "sinks": ["S%d_%d" % (k, j) for j in range(nsinks)], "stmts": []})
    # logger 0 always has a plain threshold filter plus the most common shape, so that simple
    # mistakes cannot hide behind a complicated expression
    if nloggers > 1:
        loggers[1]["filter"] = ("leaf", loggers[1]["leaves"][0])
        loggers[1]["leaves"] = loggers[1]["leaves"][:1]
    sid = 0
    item_id = 1
    for lg in loggers:
        for j in range(nstmts):
            sev = j % 6 if j < 6 else rng.randrange(6)
            form = "expr" if (j % 2 == 0) else "named"
            tagged = rng.random() < 0.4
            nitems = rng.choice([0, 1, 2, 3, 4, 6])
            if j < 2:
                nitems = max(nitems, 3)
            items = []
            for _ in range(nitems):
                kind = rng.choice(["lit", "str", "int", "dbl", "chr", "lazy", "lazy", "lazyp", "obj", "fn"])
                if kind == "lit":
                    v = rng.choice(["msg", "a b", "", "{}", "x=1;", "%s"])
                elif kind == "str":
                    v = rng.choice(["string", "", "two words", "\\t"])
                elif kind == "int":
                    v = rng.choice([0, 7, -12, 123456])
                elif kind == "dbl":
                    v = rng.choice([2.5, -0.125, 1e6, 3.0])
                elif kind == "chr":
                    v = rng.choice(["x", ":", " "])
                else:
                    v = item_id
                items.append({"kind": kind, "v": v, "id": item_id})
                item_id += 1
            # split of a named statement's items over several C++ statements
            cuts = sorted(rng.sample(range(1, max(2, nitems)), min(max(0, nitems - 1), rng.randint(0, 2)))) \
                if nitems > 1 else []
            lg["stmts"].append({"id": sid, "sev": sev, "form": form, "tag": ("tag%d" % sid) if tagged else None,
                                "items": items, "cuts": cuts})
            sid += 1
    return {"seed": seed, "loggers": loggers}


def item_text(it):
    k, v = it["kind"], it["v"]
    if k in ("lit", "str"):
        return v.replace("\\t", "\t")
    if k == "int":
        return str(v)
    if k == "dbl":
        return "%g" % v
    if k == "chr":
        return v
    if k in ("lazy", "fn"):
        return "L%d" % it["id"]
    if k == "lazyp":
        return "P%d" % it["id"]
    return "O%d" % it["id"]


def item_cpp(it):
    k, v = it["kind"], it["v"]
    if k == "lit":
        return '"%s"' % v
    if k == "str":
        return 'std::string("%s")' % v
    if k == "int":
        return str(v)
    if k == "dbl":
        return repr(float(v))
    if k == "chr":
        return "'%s'" % v
    if k == "lazy":
        return '[] { ev("LAZY %d"); return std::string("L%d"); }' % (it["id"], it["id"])
    if k == "lazyp":
        return '[]() -> const char* { ev("LAZY %d"); return "P%d"; }' % (it["id"], it["id"])
    if k == "fn":
        return 'std::function<std::string()>([] { ev("LAZY %d"); return std::string("L%d"); })' % (it["id"], it["id"])
    return "Counting{%d}" % it["id"]


def source(prog):
    L = []
    A = L.append
    A("// generated by lib/loggen.py, seed %d" % prog["seed"])
    A("#include <nitro/log/log.hpp>")
    for h in ("attribute/message", "attribute/severity", "attribute/tag", "attribute/timestamp",
              "filter/severity_filter", "filter/and_filter", "filter/or_filter", "filter/not_filter",
              "sink/sequence"):
        A("#include <nitro/log/%s.hpp>" % h)
    A("#include <cstdio>\n#include <functional>\n#include <iostream>\n#include <sstream>\n#include <string>\n"
      "#include <type_traits>")
    A("using nitro::log::severity_level;")
    A("static std::string hexs(const std::string& s) { static const char* d = \"0123456789abcdef\"; "
      "std::string r = \"x\"; for (unsigned char c : s) { r.push_back(d[c >> 4]); r.push_back(d[c & 15]); } return r; }")
    A("static void ev(const std::string& s) { std::fputs(s.c_str(), stdout); std::fputc('\\n', stdout); }")
    A("struct Counting { int id; };")
    A("static std::ostream& operator<<(std::ostream& s, const Counting& c) { ev(\"INS \" + std::to_string(c.id)); "
      "return s << 'O' << c.id; }")
    A("using R = nitro::log::record<nitro::log::tag_attribute, nitro::log::message_attribute, "
      "nitro::log::severity_attribute, nitro::log::timestamp_attribute>;")
    for lg in prog["loggers"]:
        k = lg["k"]
        for s in lg["sinks"]:
            A("struct %s { void sink(severity_level s, const std::string& rec) { ev(\"SINK %s \" + "
              "std::to_string(static_cast<int>(s)) + \" \" + hexs(rec)); } };" % (s, s))
        A("template <typename Rec> struct Fmt%d { std::string format(Rec& r) { ev(\"FMT %d \" + "
          "std::to_string(static_cast<int>(r.severity())) + \" \" + hexs(r.tag()) + \" \" + hexs(r.message())); "
          "return \"<%d|\" + std::to_string(static_cast<int>(r.severity())) + \"|\" + r.tag() + \"|\" + r.message() + \">\"; } };"
          % (k, k, k))
        A("template <typename Rec> using Filter%d = %s;" % (k, filter_type(lg["filter"], "Rec")))
        A("using L%d = nitro::log::logger<R, Fmt%d, nitro::log::sink::sequence<%s >, Filter%d>;" %
          (k, k, ", ".join(lg["sinks"]), k))
    for lg in prog["loggers"]:
        k = lg["k"]
        A("static void run_%d() {" % k)
        for st in lg["stmts"]:
            sev = SEVS[st["sev"]]
            tag = '"%s"' % st["tag"] if st["tag"] else ""
            A('    ev("S %d");' % st["id"])
            items = [item_cpp(it) for it in st["items"]]
            if st["form"] == "expr":
                A("    L%d::%s(%s)%s;" % (k, sev, tag, "".join(" << " + i for i in items)))
            else:
                A("    {")
                A("        auto s = L%d::%s(%s);" % (k, sev, tag))
                parts, prev = [], 0
                for c in st["cuts"] + [len(items)]:
                    if c > prev:
                        parts.append(items[prev:c])
                    prev = c
                for p in parts:
                    A("        s%s;" % "".join(" << " + i for i in p))
                A("        (void)s;")
                A("    }")
            A('    ev("E %d");' % st["id"])
        A("}")
    A("template <typename T> static int is_null() { return std::is_same<T, nitro::log::detail::null_stream>::value ? 1 : 0; }")
    A("int main() {")
    A("    static char buf[1 << 16]; std::setvbuf(stdout, buf, _IOFBF, sizeof buf);")
    for lg in prog["loggers"]:
        k = lg["k"]
        for si, s in enumerate(SEVS):
            A('    ev("TYPE %d %d " + std::to_string(is_null<decltype(L%d::%s())>()));' % (k, si, k, s))
    for lg in prog["loggers"]:
        k = lg["k"]
        leaves = lg["leaves"]
        ind = "    "
        for n in leaves:
            A(ind + "for (int t%d = 0; t%d < 6; ++t%d) {" % (n, n, n))
            ind += "    "
        for n in leaves:
            A(ind + "nitro::log::filter::severity_filter<R, %d>::set_severity(static_cast<severity_level>(t%d));" % (n, n))
        A(ind + 'ev("CFG %d"%s);' % (k, "".join(' + std::string(" ") + std::to_string(t%d)' % n for n in leaves)))
        A(ind + "run_%d();" % k)
        for n in leaves:
            ind = ind[:-4]
            A(ind + "}")
    A('    ev("DONE");')
    A("    return 0;\n}")
    return "\n".join(L) + "\n"


def expected_events(lg, st, minsev, thr):
    """-> (lazy_and_ins_events, fmt_and_sink_events) for one statement under one configuration"""
    sev = st["sev"]
    if sev < minsev or not filter_eval(lg["filter"], sev, thr):
        return [], []
    lazy = []
    msg = ""
    for it in st["items"]:
        if it["kind"] in ("lazy", "lazyp", "fn"):
            lazy.append("LAZY %d" % it["id"])
        elif it["kind"] == "obj":
            lazy.append("INS %d" % it["id"])
        msg += item_text(it)
    tag = st["tag"] or ""
    hx = lambda s: "x" + s.encode("latin-1").hex()
    rec = "<%d|%d|%s|%s>" % (lg["k"], sev, tag, msg)
    out = ["FMT %d %d %s %s" % (lg["k"], sev, hx(tag), hx(msg))]
    for s in lg["sinks"]:
        out.append("SINK %s %d %s" % (s, sev, hx(rec)))
    return lazy, out


def parse_log(text):
    """-> (types {(k, sev): is_null}, {(k, thr tuple): {stmt id: [event lines]}}, done)"""
    types = {}
    cfgs = {}
    cur_cfg = None
    cur_stmt = None
    done = False
    for line in text.split("\n"):
        if not line:
            continue
        f = line.split(" ")
        if f[0] == "TYPE":
            types[(int(f[1]), int(f[2]))] = int(f[3])
        elif f[0] == "CFG":
            cur_cfg = (int(f[1]), tuple(int(x) for x in f[2:]))
            cfgs[cur_cfg] = {}
        elif f[0] == "S":
            cur_stmt = int(f[1])
            cfgs[cur_cfg][cur_stmt] = []
        elif f[0] == "E":
            cur_stmt = None
        elif f[0] == "DONE":
            done = True
        elif cur_cfg is not None:
            if cur_stmt is None:
                cfgs[cur_cfg].setdefault(-1, []).append(line)
            else:
                cfgs[cur_cfg][cur_stmt].append(line)
    return types, cfgs, done
