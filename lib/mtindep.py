"""Concurrent independent use (harness/mtindep.cpp): threads working on their OWN objects must get
the results of the serial reference, and ThreadSanitizer must stay silent.  A phase added to the
checks whose property states that the outcome depends on the arguments alone."""
import os
import random
import re
import subprocess

import build
import driver
import optrun


def _plan(tier, seed, section):
    rng = random.Random("mtindep-%s-%d" % (section, seed))
    runs = []

    def add(tag, n, iters):
        for _ in range(n):
            runs.append((tag, section, rng.choice([2, 3, 4, 8, 16]), iters, rng.randrange(1, 10 ** 9)))
    if section == "dl":
        # the dynamic loader synchronises with a lock inside the uninstrumented ld.so, which ThreadSanitizer cannot see
        # (reports in _dl_close_worker on the unchanged tree): this section is decided by the serial-vs-concurrent
        # comparison on ASan and uninstrumented builds only
        add("gasan", 2 if tier == "quick" else 12, 300)
        add("plain", 2 if tier == "quick" else 24, 1500)
        return runs
    if tier == "quick":
        add("gtsan", 2, 300)
        add("plain", 2, 1500)
    else:
        add("gtsan", 12, 600)
        add("ctsan", 8, 600)
        add("plain", 24, 4000)
        add("gasan", 6, 600)
    return runs


def _exe(tag):
    """the harness; without the operations that do not compile on this tree (the owning checks report those)"""
    import fvrun
    extra = [] if fvrun.probe_insert_lvalue() else ["-DFV_NO_INSERT_LVALUE"]
    return build.build_exe(tag, ["mtindep.cpp"], build.OPTIONS_SRCS, extra=extra, link=["-ldl"])


def _run(arg):
    exe, r = arg
    env = dict(os.environ)
    env.update(driver.SAN_ENV)
    if r[1] == "dl":
        env["NITRO_VERIF_LIBA"] = build.build_shared("plain", "testlib_a.c", "libnitro_verif_a.so")
    try:
        p = subprocess.run([exe] + [str(x) for x in r[1:]], capture_output=True, env=env, timeout=900)
    except subprocess.TimeoutExpired:
        return r, None, "", "", True
    return r, p.returncode, p.stdout.decode("latin-1"), p.stderr.decode("latin-1", "replace"), False


def phase(run_, section, tier, counters):
    """runs the section; reports violations on run_; adds to counters; returns the number of runs
    (the calls made inside the runs are reported as counters, not as evaluations)"""
    runs = _plan(tier, run_.seed, section)
    try:
        exes = {tag: _exe(tag) for tag in sorted({r[0] for r in runs})}
    except build.BuildError as e:
        run_.inconc("the concurrent phase did not build on this tree: %s" % str(e)[-600:])
        return 0
    calls = 0
    for r, rc, out, err, wd in optrun.pmap(_run, [(exes[r[0]], r) for r in runs]):
        tag, sec, threads, iters, seed = r
        case = {"phase": "concurrent-independent-use", "build": tag, "section": sec, "threads": threads,
                "iterations": iters, "seed": seed}
        if wd:
            run_.inconc("wall-clock watchdog fired for concurrent run %r" % (r,))
            continue
        counters["concurrent:runs:" + tag] += 1
        for line in out.split("\n"):
            if line.startswith("V "):
                run_.violation("concurrent-independent-use:%s:%s" % (sec, line.split(" ")[1]),
                               "%s (build %s, %d threads)" % (line[2:600], tag, threads), case)
        m = re.search(r"RESULT (.*)", out)
        if "ThreadSanitizer" in err:
            counters["concurrent:tsan-reports"] += 1
            run_.violation("concurrent-independent-use:%s:data-race" % sec,
                           "ThreadSanitizer report while %d threads used their own objects: %s" % (threads, err[:3000]),
                           case)
            continue
        if m is None or rc not in (0, 1):
            run_.violation("concurrent-independent-use:%s:%s" % (sec, driver.classify_report(err, rc)),
                           "build %s: %s" % (tag, err[-3000:]), case)
            continue
        kv = dict(x.split("=") for x in m.group(1).split())
        calls += int(kv["calls"])
        counters["concurrent:calls"] += int(kv["calls"])
        counters["concurrent:calls-overlapping-another-thread's-call"] += int(kv["overlapping"])
        counters["concurrent:distinct-jobs"] = int(kv["jobs"])
    if counters.get("concurrent:calls-overlapping-another-thread's-call", 0) == 0:
        run_.inconc("concurrent phase: no call ever overlapped a call of another thread")
    return len(runs)


def replay(run_, case, counters):
    exe = _exe(case["build"])
    for k in range(10):
        r = (case["build"], case["section"], case["threads"], case["iterations"], case["seed"])
        _, rc, out, err, wd = _run((exe, r))
        for line in out.split("\n"):
            if line.startswith("V "):
                run_.violation("concurrent-independent-use:%s:%s" % (case["section"], line.split(" ")[1]), line[2:600], case)
        if "ThreadSanitizer" in err:
            run_.violation("concurrent-independent-use:%s:data-race" % case["section"], err[:3000], case)
