"""Three-valued verdicts, known-findings matching, evidence writer, replay files."""
import hashlib
import json
import os
import re
import sys
import time

VERIF = os.path.dirname(os.path.dirname(os.path.abspath(__file__)))
KNOWN = os.path.join(VERIF, "known_findings.txt")

EXIT_HELD, EXIT_VIOLATED, EXIT_INCONCLUSIVE = 0, 1, 2


def seed():
    try:
        return int(os.environ.get("VERIF_SEED", "1"))
    except ValueError:
        return 1


def load_known(path=KNOWN):
    """finding: property=C01 key=<key> <text>     (suppresses exactly that key)
       fixed: property=C14 <commit> <text>        (suppresses nothing)"""
    findings = {}
    if not os.path.exists(path):
        return findings
    with open(path) as fh:
        for line in fh:
            line = line.strip()
            m = re.match(r"finding:\s+property=(\S+)\s+key=(\S+)\s*(.*)$", line)
            if m:
                findings[(m.group(1), m.group(2))] = m.group(3)
    return findings


class Run:
    """One execution of one check.  Collects violations (keyed), observations and
    inconclusive reasons; finish() writes the evidence file and returns the exit code."""

    def __init__(self, prop, tier, level, replay_of=None):
        self.prop = prop
        self.tier = tier
        self.level = level
        self.seed = seed()
        self.t0 = time.time()
        self.known = load_known()
        self.violations = {}      # key -> (what, replay path, count)
        self.known_seen = {}      # key -> what
        self.inconclusive = []
        self.coverage = {}
        self.assumptions = [
            "a clean sanitizer run is not memory safety: intra-object overflows and reuse "
            "after quarantine are invisible to ASan",
            "libstdc++ and glibc are not instrumented; only nitro and the harness are",
            "the verdict covers only the executions described under coverage",
        ]
        self.replay_of = replay_of
        self.samples = []

    # -- observations -----------------------------------------------------------------
    def sample(self, obj, limit=4):
        if len(self.samples) < limit:
            self.samples.append(obj)

    def assume(self, text):
        if text not in self.assumptions:
            self.assumptions.append(text)

    def inconc(self, reason):
        if reason not in self.inconclusive:
            self.inconclusive.append(reason)
            print("INCONCLUSIVE property=%s %s" % (self.prop, reason), flush=True)

    def violation(self, key, what, case):
        """key: deterministic violation key (names input class / call site / history).
        case: JSON-serialisable object from which --replay can re-execute."""
        key = re.sub(r"\s+", "_", key)
        if (self.prop, key) in self.known:
            if key not in self.known_seen:
                self.known_seen[key] = self.known[(self.prop, key)]
                print("KNOWN-FINDING: property=%s key=%s %s" %
                      (self.prop, key, self.known[(self.prop, key)]), flush=True)
            return
        if key in self.violations:
            w, p, n = self.violations[key]
            self.violations[key] = (w, p, n + 1)
            return
        hid = hashlib.sha256((self.prop + key).encode()).hexdigest()[:12]
        path = os.path.join(VERIF, "replays", "%s-%s.json" % (self.prop, hid))
        os.makedirs(os.path.dirname(path), exist_ok=True)
        try:
            with open(path, "w") as fh:
                json.dump({"property": self.prop, "key": key, "what": what, "seed": self.seed,
                           "tier": self.tier, "case": _strkeys(case)}, fh, indent=1, default=_default)
        except Exception as e:  # never lose the verdict because of a replay file
            print("warning: could not write replay file: %s" % e, file=sys.stderr)
        self.violations[key] = (what, path, 1)
        print("VIOLATION property=%s replay=%s" % (self.prop, path), flush=True)
        print("  key=%s  %s" % (key, what[:1500]), flush=True)

    # -- end of run -------------------------------------------------------------------
    def finish(self, evaluations, distinct_nontrivial, rule, exhaustive=None, **extra):
        cov = dict(self.coverage)
        cov.update(extra)
        cov["evaluations"] = int(evaluations)
        cov["distinct_nontrivial"] = int(distinct_nontrivial)
        cov["rule"] = rule
        cov["samples"] = self.samples
        if exhaustive is not None:
            cov["exhaustive"] = bool(exhaustive)
        if self.known_seen:
            cov["known_findings_observed"] = sorted(self.known_seen)
        if self.violations:
            cov["violation_keys"] = {k: {"what": v[0][:400], "replay": v[1], "count": v[2]}
                                     for k, v in self.violations.items()}
        if self.inconclusive:
            cov["inconclusive"] = self.inconclusive
        if not self.violations and not self.inconclusive and \
                (evaluations < 1 or (distinct_nontrivial < 2 and not self.replay_of)):
            self.inconc("the run observed nothing (evaluations=%d distinct=%d)" %
                        (evaluations, distinct_nontrivial))
            cov["inconclusive"] = self.inconclusive
        ev = {
            "property_id": self.prop,
            "tier": self.tier,
            "seed": self.seed,
            "level": self.level,
            "coverage": cov,
            "assumptions": self.assumptions,
            "wall_s": round(time.time() - self.t0, 2),
            "violations": len(self.violations),
        }
        if self.replay_of is None:
            path = os.path.join(VERIF, "evidence", self.prop + ".json")
            os.makedirs(os.path.dirname(path), exist_ok=True)
            tmp = path + ".%d.tmp" % os.getpid()
            with open(tmp, "w") as fh:
                json.dump(ev, fh, indent=1, default=_default)
            os.rename(tmp, path)
        if self.violations:
            verdict, code = "VIOLATED", EXIT_VIOLATED
        elif self.inconclusive:
            verdict, code = "INCONCLUSIVE", EXIT_INCONCLUSIVE
        else:
            verdict, code = "HELD", EXIT_HELD
        print("%s property=%s tier=%s seed=%d evaluations=%d distinct=%d known=%d wall=%.1fs" %
              (verdict, self.prop, self.tier, self.seed, evaluations, distinct_nontrivial,
               len(self.known_seen), time.time() - self.t0), flush=True)
        return code


def _default(o):
    if isinstance(o, (bytes, bytearray)):
        return {"hex": bytes(o).hex()}
    if isinstance(o, (set, frozenset)):
        return sorted(o, key=repr)
    if isinstance(o, tuple):
        return list(o)
    return repr(o)


def _strkeys(o):
    """dictionaries keyed by bytes (environment maps) get string keys 'hexkey:<hex>' (JSON keys are strings)"""
    if isinstance(o, dict):
        return {("hexkey:" + bytes(k).hex() if isinstance(k, (bytes, bytearray)) else k): _strkeys(v)
                for k, v in o.items()}
    if isinstance(o, (list, tuple)):
        return [_strkeys(v) for v in o]
    return o


def unhex_json(o):
    """inverse of _default / _strkeys for bytes"""
    if isinstance(o, dict):
        if set(o.keys()) == {"hex"}:
            return bytes.fromhex(o["hex"])
        return {(bytes.fromhex(k[7:]) if isinstance(k, str) and k.startswith("hexkey:") else k): unhex_json(v)
                for k, v in o.items()}
    if isinstance(o, list):
        return [unhex_json(v) for v in o]
    return o
