"""Generators of declarations, environments and argument vectors for the option-parser
checks.  Only correctly declared parsers are produced (C13 has its own generator)."""
import itertools
import random

from optmodel import classify, TRUTHY, FALSY

ENVP = b"NITRO_VERIF_"

UNDECL_LONG = b"nope"
UNDECL_LETTER = b"z"


def T(name, short=None, rev=False, default=None, env=None, group=None, desc=b""):
    return {"kind": "t", "name": name, "short": short, "rev": rev, "default": default, "env": env,
            "optional": True, "group": group, "desc": desc}


def O(name, short=None, default=None, optional=True, env=None, group=None, desc=b"", metavar=None):
    return {"kind": "o", "name": name, "short": short, "default": default, "optional": optional,
            "env": env, "rev": False, "group": group, "desc": desc, "metavar": metavar}


def M(name, short=None, default=None, optional=True, env=None, group=None, desc=b"", metavar=None):
    return {"kind": "m", "name": name, "short": short, "default": default, "optional": optional,
            "env": env, "rev": False, "group": group, "desc": desc, "metavar": metavar}


def D(opts, pos=None, greedy=False, **kw):
    # kw may carry greedy_first=True: greedy_postionals() is called before accept_positionals()
    d = {"opts": opts, "pos": pos, "greedy": greedy, "app": b"prog"}
    d.update(kw)
    return d


POS_CONFIGS = [(None, False), (1, False), (1, True), ("inf", False), ("inf", True), (2, False),
               (3, True), (0, False)]


def family():
    """the fixed family of declarations spanning the declaration dimensions of C01"""
    sets = {
        "full": [T(b"verbose", b"v"), T(b"quiet", b"q", rev=True), T(b"long-only"),
                 T(b"color", rev=True, default=1), O(b"out", b"o"), O(b"level", default=b"3"),
                 M(b"inc", b"i"), M(b"lib", default=[])],
        "toggles": [T(b"verbose", b"v"), T(b"quiet", b"q", rev=True), T(b"a", b"a"),
                    T(b"long-only")],
        "noshort": [T(b"verbose"), T(b"color", rev=True), O(b"out"), M(b"inc")],
        "options": [O(b"out", b"o"), O(b"x", b"x", default=b"d"), M(b"inc", b"i"),
                    T(b"verbose", b"v")],
    }
    fam = []
    for sname, opts in sets.items():
        for pos, greedy in POS_CONFIGS:
            if sname in ("noshort", "options") and pos in (2, 3, 0):
                continue
            fam.append(D([dict(o) for o in opts], pos, greedy, label="%s/pos=%s/greedy=%d" %
                         (sname, pos, greedy)))
    return fam


def token_pool(decl):
    """relation class -> list of tokens, one or more representatives per class"""
    opts = decl["opts"]
    P = {}

    def add(cls, tok):
        P.setdefault(cls, [])
        if tok not in P[cls]:
            P[cls].append(tok)

    tl, ol, ml = [], [], []
    for o in opts:
        n, s = o["name"], o.get("short")
        if o["kind"] == "t":
            add("long-toggle", b"--" + n)
            add("long-toggle-eq", b"--" + n + b"=1")
            add("no-toggle-rev" if o.get("rev") else "no-toggle-nonrev", b"--no-" + n)
            add("no-toggle-eq", b"--no-" + n + b"=x")
            add("no-toggle-near-miss", b"--no-" + n + b"x")
            add("no-toggle-near-miss", b"--no-" + n + b"-")
            if len(n) > 1:
                add("no-toggle-near-miss", b"--no-" + n[:-1])
            if s:
                add("short-toggle", b"-" + s)
                add("short-toggle-eq", b"-" + s + b"=1")
                add("short-toggle-repeat", b"-" + s + s)
                tl.append(s)
        else:
            k = "opt" if o["kind"] == "o" else "multi"
            add("long-" + k, b"--" + n)
            add("long-%s-eq" % k, b"--" + n + b"=val")
            add("long-%s-eq-empty" % k, b"--" + n + b"=")
            add("long-%s-eq-dash" % k, b"--" + n + b"=-x")
            add("no-" + k, b"--no-" + n)
            if s:
                add("short-" + k, b"-" + s)
                add("short-%s-eq" % k, b"-" + s + b"=val")
                add("short-%s-repeat" % k, b"-" + s + s)
                (ol if o["kind"] == "o" else ml).append(s)
        add("long-near-miss", b"--" + n + b"x")
        add("long-near-miss", b"--" + n[:-1] if len(n) > 1 else b"--" + n + n)
        if s and all(s != p["name"] for p in opts):
            add("long-is-letter", b"--" + s)
    all_letters = b"".join(o["short"] for o in opts if o.get("short"))
    for o in opts:
        if o["kind"] != "t" and o.get("short") and all_letters:
            # the value consists of the short names of all declared options
            add("short-eq-value-of-letters", b"-" + o["short"] + b"=" + all_letters)
            add("short-eq-value-of-letters", b"--" + o["name"] + b"=-" + all_letters)
    add("long-undeclared", b"--" + UNDECL_LONG)
    add("long-undeclared-eq", b"--" + UNDECL_LONG + b"=x")
    add("no-undeclared", b"--no-" + UNDECL_LONG)
    add("short-undeclared", b"-" + UNDECL_LETTER)
    add("short-undeclared-eq", b"-" + UNDECL_LETTER + b"=x")
    # bundles of length 2-3 over {toggle letters (<=2), option letter, multi letter, undeclared}
    letters = [(l, "T") for l in tl[:2]] + [(l, "O") for l in ol[:1]] + [(l, "M") for l in ml[:1]] + \
              [(UNDECL_LETTER, "U")]
    for k in (2, 3):
        for combo in itertools.product(letters, repeat=k):
            kinds = "".join(sorted(set(c[1] for c in combo)))
            cls = "bundle-" + kinds
            add(cls, b"-" + b"".join(c[0] for c in combo))
    for (l, kd) in letters[:3]:
        add("bundle-highbyte", b"-" + l + b"\xff")
        add("bundle-highbyte", b"-" + l + b"\xc3\xa4")
        add("bundle-highbyte", b"-\x80" + l)
    for (l, kd) in letters[:2]:
        add("bundle-eq", b"-" + l + l + b"=x")
    for combo in itertools.product(letters, repeat=2):
        kinds = "".join(sorted(set(c[1] for c in combo)))
        add("bundle-eq-" + kinds, b"-" + b"".join(c[0] for c in combo) + b"=val")
    # long bundles: counts and letter checks beyond any small fixed-size buffer or narrow counter
    if tl:
        t = tl[0]
        for n in (9, 17, 64, 65, 128, 256, 300):
            add("bundle-long-T", b"-" + t * n)
        for n in (64, 127, 256):
            add("bundle-long-TU", b"-" + t * n + UNDECL_LETTER)
        add("bundle-long-TU", b"-" + UNDECL_LETTER + t * 70)
        for l in (ol[:1] + ml[:1]):
            add("bundle-long-TO", b"-" + t * 64 + l)
            add("bundle-long-TO", b"-" + t * 200 + l)
        if len(tl) > 1:
            add("bundle-long-TT", b"-" + t * 64 + tl[1])
            add("bundle-long-TT", b"-" + t * 130 + tl[1] * 130)
            add("bundle-long-TT", b"-" + (t + tl[1]) * 40)
    add("value", b"x")
    add("value", b"file.txt")
    add("value-empty", b"")
    add("value-eq", b"a=b")
    add("dd", b"--")
    for m in (b"-", b"---x", b"-=x", b"--=x", b"---", b"-=", b"--="):
        add("malformed", m)
    return P


def flat_pool(pool):
    return [(cls, t) for cls, toks in sorted(pool.items()) for t in toks]


def rand_argv(rng, pool_flat, benign, maxlen, p_benign=0.6):
    n = rng.randint(1, maxlen)
    out = []
    for _ in range(n):
        if benign and rng.random() < p_benign:
            out.append(rng.choice(benign))
        else:
            out.append(rng.choice(pool_flat)[1])
    return out


def benign_tokens(decl):
    """tokens that by themselves keep a vector acceptable (values only where a value-taking
    option precedes them or positionals are accepted)"""
    b = []
    for o in decl["opts"]:
        n, s = o["name"], o.get("short")
        if o["kind"] == "t":
            b.append(b"--" + n)
            if s:
                b.append(b"-" + s)
        elif o["kind"] == "m":
            b.append(b"--" + n + b"=v")
            if s:
                b.append(b"-" + s + b"=w")
    if decl.get("pos") not in (None, 0):
        b.append(b"p")
    return b


# ---------------------------------------------------------------------------------------
# random declarations

LONGS = [b"alpha", b"beta", b"gamma", b"delta", b"out-file", b"x_1", b"9lives", b"ab", b"a", b"b",
         b"verbose", b"n", b"not", b"no", b"nO-x", b"level", b"o", b"very-long-option-name-here"]
LETTERS = [b"a", b"b", b"c", b"d", b"o", b"v", b"q", b"A", b"B", b"1", b"2", b"n", b"_"]


def rand_decl(rng, nmax=6, env_rate=0.0, required_rate=0.1, kinds="omt", groups=False,
              pos_choices=None):
    n = rng.randint(1, nmax)
    names = rng.sample(LONGS, n)
    letters = rng.sample(LETTERS, min(n, len(LETTERS)))
    opts = []
    ng = rng.randint(0, 2) if groups else 0
    for i in range(n):
        kind = rng.choice(kinds)
        short = letters[i] if rng.random() < 0.7 else None
        env = (ENVP + str(i).encode()) if rng.random() < env_rate else None
        grp = rng.randrange(ng) if ng and rng.random() < 0.5 else None
        if kind == "t":
            opts.append(T(names[i], short, rev=rng.random() < 0.4,
                          default=rng.choice([None, 0, 1, 3]), env=env, group=grp))
        elif kind == "o":
            req = rng.random() < required_rate
            opts.append(O(names[i], short,
                          default=rng.choice([None, b"dflt", b""]) if not req else None,
                          optional=not req, env=env, group=grp))
        else:
            req = rng.random() < required_rate
            opts.append(M(names[i], short,
                          default=rng.choice([None, [], [b"d1", b"d2"]]) if not req else None,
                          optional=not req, env=env, group=grp))
    pos, greedy = rng.choice(pos_choices or POS_CONFIGS)
    d = D(opts, pos, greedy)
    if ng:
        d["groups"] = [(b"grp%d" % g, b"") for g in range(ng)]
    return d


def decl_id(decl):
    return repr(sorted((k, repr(v)) for k, v in decl.items() if k != "label"))


def spellings(o, value=None, rng=None):
    """all command-line spellings of one occurrence of an option (value-taking: with value)"""
    n, s = o["name"], o.get("short")
    out = []
    if o["kind"] == "t":
        out.append([b"--" + n])
        if s:
            out.append([b"-" + s])
    else:
        v = value if value is not None else b"val"
        out.append([b"--" + n + b"=" + v])
        if not v.startswith(b"-"):
            out.append([b"--" + n, v])
        if s:
            out.append([b"-" + s + b"=" + v])
            if not v.startswith(b"-"):
                out.append([b"-" + s, v])
    return out


def defect_vectors(rng, decl):
    """mostly valid vectors with exactly one defect of a named rejection condition,
    surrounded by benign arguments at random positions: list of (reason, argv)"""
    benign = benign_tokens(decl)
    res = []

    def around(parts):
        """interleave benign fillers between the given token groups"""
        v = []
        for g in parts:
            for _ in range(rng.randint(0, 2)):
                if benign:
                    b = rng.choice(benign)
                    if b != b"p":
                        v.append(b)
            v.extend(g)
        for _ in range(rng.randint(0, 1)):
            if benign:
                b = rng.choice(benign)
                if b != b"p":
                    v.append(b)
        return v

    for o in decl["opts"]:
        sp = spellings(o)
        if o["kind"] == "o":
            a, b = rng.choice(sp), rng.choice(sp)
            res.append(("option-given-twice", around([a, b])))
        if o["kind"] in "om":
            key = [b"--" + o["name"]] if rng.random() < 0.5 or not o.get("short") else [b"-" + o["short"]]
            nxt = rng.choice([[], [b"--"], [b"--" + UNDECL_LONG], [b"-5"], key])
            res.append(("missing-value", around([[]]) + key + nxt))
        if o["kind"] == "t":
            on = rng.choice(sp)
            res.append(("toggle-with-value", around([[on[0] + b"=" + rng.choice([b"", b"1", b"x"])]])))
            if o.get("rev"):
                off = [b"--no-" + o["name"]]
                res.append(("both-polarities", around([on, off])))
                res.append(("both-polarities", around([off, on])))
                res.append((None, around([off, off])))
            else:
                res.append(("no-prefix-not-reversible", around([[b"--no-" + o["name"]]])))
    lim = decl.get("pos")
    if lim != "inf":
        k = (lim or 0) + 1
        res.append(("too-many-positionals", around([[b"p%d" % i] for i in range(k)])))
        res.append(("too-many-positionals", around([[b"--"]] + [[b"-p%d" % i] for i in range(k)])))
    res.append(("unknown-long", around([[b"--" + UNDECL_LONG]])))
    res.append(("unknown-letter", around([[b"-" + UNDECL_LETTER]])))
    return res
