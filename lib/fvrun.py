"""Runner for harness/fvmodel.cpp (C06 and C07 share the executions' harness, each check
filters its own oracle's verdicts)."""
import os
import re
import subprocess
from collections import Counter

import build
import driver
import optrun
import verdict

PROBE = "fv_insert_lvalue_probe.cpp"
MEMCHECK = driver.MEMCHECK


def probe_insert_lvalue(tag="gasan"):
    """-> True if appending an lvalue with insert() compiles and works"""
    try:
        exe = build.build_exe(tag, [PROBE])
    except build.BuildError:
        return False
    p = subprocess.run([exe], capture_output=True, env=_env())
    return p.returncode == 0


def _env():
    e = dict(os.environ)
    e.update(driver.SAN_ENV)
    return e


def harness(tag, lvalue_ok):
    return build.build_exe(tag, ["fvmodel.cpp"], extra=[] if lvalue_ok else ["-DFV_NO_INSERT_LVALUE"])


def info(exe, typ, cap):
    out = subprocess.run([exe, typ, "info", str(cap)], capture_output=True, text=True, env=_env()).stdout
    a = int(re.search(r"ALPHABET (\d+)", out).group(1))
    names = {int(m.group(1)): m.group(2) for m in re.finditer(r"OP (\d+) (.*)", out)}
    return a, names


def plan(exe, tier):
    """list of jobs (typ, mode, cap, depth, lo, hi, block, faults)"""
    jobs = []

    def exh(typ, cap, depth, faults, limit=None, parts=None):
        a, _ = info(exe, typ, cap)
        total = a ** depth
        if limit:
            total = min(total, limit)
        parts = parts or max(1, min(64, total // 20000))
        step = (total + parts - 1) // parts
        for lo in range(0, total, step):
            jobs.append((typ, "exh", cap, depth, lo, min(total, lo + step), 256, faults))

    def rnd(typ, cap, length, count, faults):
        parts = max(1, min(32, count // 500))
        step = (count + parts - 1) // parts
        for lo in range(0, count, step):
            jobs.append((typ, "rnd", cap, length, lo, min(count, lo + step), 64, faults))

    # trivially copyable element types with ranges of other element types (fixed set of conversions)
    jobs.append(("T", "triv", 0, 0, 0, 1, 1, 0))
    if tier == "quick":
        for cap in (0, 1, 2, 3):
            exh("T", cap, 3, 1)
            exh("M", cap, 3, 1)
        rnd("T", 1, 4, 400000, 0)      # depth 4 exhaustively is the thorough tier's business
        exh("M", 2, 4, 1)
        rnd("T", 8, 30, 5000, 1)
        rnd("M", 8, 30, 3000, 1)
        rnd("T", 3, 12, 4000, 1)
        # large capacities (sparse alphabet around 16/32/64/128/256 and the ends)
        rnd("T", 70, 40, 1500, 1)
        rnd("M", 100, 40, 1000, 1)
        rnd("T", 300, 30, 500, 0)
    else:
        for cap in (0, 1, 2, 3):
            exh("T", cap, 3, 1)
            exh("M", cap, 3, 1)
        exh("T", 1, 4, 1)
        exh("T", 2, 4, 0, limit=16000000)
        exh("M", 1, 5, 1, limit=8000000)
        exh("M", 2, 4, 1)
        exh("M", 3, 4, 0, limit=8000000)
        # beyond the exhaustive depth: seeded random sequences (enumerating depth 5 would take hours)
        rnd("T", 1, 6, 1000000, 0)
        rnd("T", 2, 5, 2000000, 1)
        rnd("T", 3, 5, 2000000, 0)
        rnd("T", 8, 30, 200000, 1)
        rnd("M", 8, 30, 100000, 1)
        rnd("T", 3, 12, 200000, 1)
        rnd("T", 5, 60, 20000, 1)
        rnd("T", 70, 40, 40000, 1)
        rnd("M", 100, 40, 30000, 1)
        rnd("T", 300, 30, 10000, 1)
        rnd("M", 40, 60, 20000, 1)
        rnd("T", 1100, 20, 2000, 0)
    return jobs


class Result:
    def __init__(self):
        self.viol = []          # (prop, key, seqdesc, detail, job)
        self.crashes = []       # (key, job, index, report)
        self.stats = Counter()
        self.sequences = 0
        self.inconc = []
        self.samples = []


def _one(exe, job, lo, hi, block, seed, wrapper=()):
    typ, mode, cap, depth, _, _, _, faults = job
    cmd = list(wrapper) + [exe, typ, mode, str(cap), str(depth), str(lo), str(hi), str(block), str(faults), str(seed)]
    try:
        p = subprocess.run(cmd, capture_output=True, env=_env(), timeout=driver.WALL_WATCHDOG_S)
        return p.stdout.decode("latin-1"), p.stderr.decode("latin-1", "replace"), p.returncode, False
    except subprocess.TimeoutExpired as e:
        return (e.stdout or b"").decode("latin-1"), (e.stderr or b"").decode("latin-1", "replace"), None, True


def run_job(args):
    exe, job, seed, wrapper = args
    typ, mode, cap, depth, lo, hi, block, faults = job
    R = Result()

    def run_range(lo, hi, blk):
        cur = lo
        while cur < hi:
            out, err, rc, wd = _one(exe, job, cur, hi, blk, seed, wrapper)
            per, order = driver._split_cases(out)
            for line in out.split("\n"):
                if line.startswith("V "):
                    f = line.split(" ", 4)
                    R.viol.append((f[1], f[2], f[3][4:] if len(f) > 3 else "", f[4] if len(f) > 4 else "", job))
                elif line.startswith("SAMPLE ") and len(R.samples) < 2:
                    R.samples.append({"element_type": {"T": "copyable", "M": "move-only", "Q": "quaint_ptr",
                                                       "O": "optional"}.get(typ, typ), "capacity": cap,
                                      "mode": mode, "history_and_final_reference_state": line.split(" ", 2)[2],
                                      "element_throws_enumerated_on": "last operation" if faults and mode == "exh"
                                      else ("a random operation" if faults else "none")})
                elif line.startswith("STATS"):
                    for kv in line.split()[1:]:
                        k, v = kv.split("=")
                        R.stats[k] += int(v)
            if wd:
                R.inconc.append("wall-clock watchdog fired in job %r" % (job,))
                return
            failed, timeout = None, False
            for cid in order:
                if not per[cid][1]:
                    failed, timeout = int(cid), per[cid][2]
            if failed is None:
                if rc != 0:
                    R.crashes.append((driver.classify_report(err, rc), job, -1, err[-6000:]))
                return
            if len(R.crashes) >= 3:
                R.stats["jobs-cut-short-after-3-crashes"] += 1
                return
            if blk > 1:
                run_range(failed, min(hi, failed + blk), 1)
                cur = failed + blk
            else:
                R.crashes.append(("timeout" if timeout else driver.classify_report(err, rc), job, failed,
                                  err[-6000:]))
                cur = failed + 1

    run_range(lo, hi, block)
    return R


def job_kind(r):
    s = r.samples[0]
    return (s["element_type"], s["capacity"], s["mode"])


def job_kind2(s):
    return (s["element_type"], s["capacity"], s["mode"])


def decode(exe, job, index, seed):
    """sequence string of the index-th sequence of a job (for replay files)"""
    typ, mode, cap, depth = job[:4]
    a, names = info(exe, typ, cap)
    if mode == "exh":
        x = index
        seq = []
        for _ in range(depth):
            seq.append(x % a)
            x //= a
        seq.reverse()
        return ".".join(map(str, seq)), [names[i] for i in seq]
    return None, None


def run_all(tier, seed, tags=("gasan",), wrapper=(), jobs_filter=None):
    lvalue_ok = probe_insert_lvalue()
    total = Result()
    total.lvalue_ok = lvalue_ok
    total.names = {}
    for tag in tags:
        exe = harness(tag, lvalue_ok)
        jobs = plan(exe, tier)
        if tag != tags[0]:
            jobs = jobs[::4]
        if jobs_filter:
            jobs = jobs_filter(jobs)
        total.exe = exe
        for r in optrun.pmap(run_job, [(exe, j, seed, tuple(wrapper)) for j in jobs]):
            total.viol.extend(r.viol[:50])
            total.crashes.extend(r.crashes[:20])
            total.stats.update(r.stats)
            total.inconc.extend(r.inconc)
            if len(total.samples) < 5 and r.samples and (job_kind(r) not in [job_kind2(x) for x in total.samples]):
                total.samples.append(r.samples[0])
        total.stats["jobs:" + tag] += len(jobs)
    # a small sample under valgrind memcheck on the uninstrumented build: a value that is used before it was
    # initialised is invisible to ASan / UBSan
    import shutil
    if shutil.which("valgrind") and not jobs_filter:
        exe = harness("plain", lvalue_ok)
        scale = 1 if tier == "quick" else 8
        mjobs = [("T", "rnd", 8, 30, 0, 250 * scale, 64, 1), ("M", "rnd", 8, 30, 0, 150 * scale, 64, 1),
                 ("T", "exh", 2, 3, 0, 600 * scale, 256, 1), ("T", "rnd", 70, 40, 0, 40 * scale, 16, 0),
                 ("T", "triv", 0, 0, 0, 1, 1, 0)]
        for r in optrun.pmap(run_job, [(exe, j, seed, MEMCHECK) for j in mjobs]):
            total.viol.extend(r.viol[:20])
            total.crashes.extend(r.crashes[:10])
            total.inconc.extend(r.inconc)
            total.stats["sequences-under-memcheck"] += r.stats.get("sequences", 0)
        total.stats["jobs:memcheck"] += len(mjobs)
    # a capacity beyond 2^32 elements (4 GiB of char): uninstrumented build, only with enough free memory
    try:
        avail = int([l for l in open("/proc/meminfo") if l.startswith("MemAvailable")][0].split()[1]) // 1024
    except Exception:
        avail = 0
    if avail > 12000 and not jobs_filter:
        exe = harness("plain", lvalue_ok)
        r = run_job((exe, ("T", "huge", 0, 0, 0, 1, 1, 0), seed, ()))
        total.viol.extend(r.viol)
        total.crashes.extend(r.crashes)
        total.stats.update(r.stats)
        total.stats["jobs:plain(huge capacity)"] += 1
    else:
        total.stats["huge-capacity-skipped-for-lack-of-memory"] += 1
    return total


def op_names(exe, typ, cap, seqstr):
    try:
        _, names = info(exe, typ, cap)
        return [names[int(i)] for i in seqstr.split("@")[0].split(".") if i != ""]
    except Exception:
        return []


def replay(run, path, prop):
    import json
    with open(path) as fh:
        obj = json.load(fh)
    case = obj["case"]
    lvalue_ok = probe_insert_lvalue()
    exe = harness(case.get("tag", "gasan"), lvalue_ok)
    cmd = [exe, case["type"], "seq", str(case["cap"]), case["seq"].split("@")[0]]
    if "@" in case["seq"]:
        cmd.append(case["seq"].split("@")[1])
    p = subprocess.run(cmd, capture_output=True, env=_env())
    out = p.stdout.decode("latin-1")
    n = 0
    for line in out.split("\n"):
        if line.startswith("V " + prop + " "):
            f = line.split(" ", 4)
            run.violation(f[2], " ".join(f[3:]), case)
            n += 1
    if p.returncode != 0 and "END seq" not in out:
        run.violation("crash:" + driver.classify_report(p.stderr.decode("latin-1", "replace"), p.returncode),
                      p.stderr.decode("latin-1", "replace")[-3000:], case)
    run.sample({"replayed": case, "ops": op_names(exe, case["type"], case["cap"], case["seq"])})
    return run.finish(1, 2, "replay of one recorded sequence")
