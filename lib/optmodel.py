"""Reference model of the nitro option parser, written from the property statements
(C01-C04, C11, C12), not from the implementation.  See DESIGN.md section 3.3.

A declaration is a dict:
  {'opts': [ {'kind': 'o'|'m'|'t', 'name': bytes, 'short': bytes|None, 'env': bytes|None,
              'default': None | bytes (o) | [bytes] (m) | int (t),
              'optional': bool, 'rev': bool, 'group': None|int,
              'desc': bytes, 'metavar': bytes|None}, ...],
   'pos': None | int | 'inf', 'greedy': bool,
   'app': bytes, 'about': bytes, 'groups': [(name, desc), ...]}
env: dict bytes -> bytes (variables that are set; anything else is unset)
argv: list of bytes
"""

TRUTHY = [b"TRUE", b"ON", b"YES", b"true", b"on", b"yes", b"1", b"Y", b"with", b"True", b"On",
          b"WITH", b"With", b"y", b"Yes"]
FALSY = [b"false", b"FALSE", b"without", b"0", b"NO", b"no", b"Without", b"n", b"off", b"OFF",
         b"N", b"False", b"Off", b"WITHOUT", b"No"]

INF = float("inf")


class Tok:
    __slots__ = ("kind", "name", "letters", "value")

    def __init__(self, kind, name=None, letters=None, value=None):
        self.kind = kind        # value | dd | malformed | long | short
        self.name = name        # long name (bytes) for kind long
        self.letters = letters  # list of 1-byte bytes for kind short
        self.value = value      # bytes after the first '=' or None


def classify(tok):
    if not tok.startswith(b"-"):
        return Tok("value")
    if tok == b"--":
        return Tok("dd")
    eq = tok.find(b"=")
    if eq >= 0:
        name, value = tok[:eq], tok[eq + 1:]
    else:
        name, value = tok, None
    stripped = name.lstrip(b"-")
    dashes = len(name) - len(stripped)
    if not stripped or dashes > 2:
        return Tok("malformed")
    if dashes == 2:
        return Tok("long", name=stripped, value=value)
    return Tok("short", letters=[stripped[i:i + 1] for i in range(len(stripped))], value=value)


class Reject(Exception):
    def __init__(self, reason):
        Exception.__init__(self, reason)
        self.reason = reason


class Expect:
    """outcome of the model: reject (with the reason class) or a result, where multi-option
    lists may have alternatives the properties leave open"""
    __slots__ = ("reject", "o", "m", "m_alt", "t", "prov", "pos")

    def __init__(self):
        self.reject = None
        self.o, self.m, self.m_alt, self.t, self.prov, self.pos = {}, {}, {}, {}, set(), []


def split_env_multi(text):
    """-> list of acceptable lists.  'split at ;' leaves open whether a trailing ';' yields a
    trailing empty element"""
    parts = text.split(b";")
    alts = [parts]
    if parts and parts[-1] == b"":
        alts.append(parts[:-1])
    return alts


def model_parse(decl, env, argv, mode="A"):
    if mode == "W":
        mode = "V"    # W builds the non-dash tokens with user_input::verbatim(): the same meaning
    ex = Expect()
    try:
        _parse(decl, env, argv, mode, ex)
    except Reject as r:
        ex.reject = r.reason
    return ex


def _parse(decl, env, argv, mode, ex):
    opts = decl["opts"]
    by_long = {o["name"]: o for o in opts}
    by_letter = {o["short"]: o for o in opts if o.get("short")}
    limit = 0 if decl.get("pos") is None else (INF if decl["pos"] == "inf" else decl["pos"])
    greedy = bool(decl.get("greedy"))
    val = {o["name"]: None for o in opts if o["kind"] == "o"}
    mul = {o["name"]: [] for o in opts if o["kind"] == "m"}
    cnt = {o["name"]: 0 for o in opts if o["kind"] == "t"}
    dirty = set()

    toks = [classify(t) for t in argv]
    first_dd = next((i for i, t in enumerate(argv) if t == b"--"), len(argv))
    for i, t in enumerate(toks):
        if t.kind == "malformed" and (i < first_dd or mode == "V"):
            raise Reject("malformed-token")

    def toggle_on(o, times):
        n = o["name"]
        if n in dirty and cnt[n] == 0:
            raise Reject("both-polarities")
        cnt[n] += times
        dirty.add(n)

    def toggle_off(o):
        n = o["name"]
        if not o.get("rev"):
            raise Reject("no-prefix-not-reversible")
        if n in dirty and cnt[n] > 0:
            raise Reject("both-polarities")
        cnt[n] = 0
        dirty.add(n)

    only_pos = False
    pos = []
    i = 0
    n = len(argv)
    while i < n:
        t = toks[i]
        if only_pos or t.kind == "value":
            if len(pos) >= limit:
                raise Reject("too-many-positionals")
            if greedy:
                only_pos = True
            pos.append(argv[i])
            i += 1
            continue
        if t.kind == "dd":
            only_pos = True
            i += 1
            continue
        if t.kind == "malformed":
            raise Reject("malformed-token")
        target = None
        off = False
        if t.kind == "long":
            target = by_long.get(t.name)
            if target is None and t.name.startswith(b"no-"):
                cand = by_long.get(t.name[3:])
                if cand is not None and cand["kind"] == "t":
                    target, off = cand, True
            if target is None:
                raise Reject("unknown-long")
        else:
            if len(t.letters) > 1:
                if t.value is not None:
                    raise Reject("bundle-with-value")
                counts = {}
                for l in t.letters:
                    o = by_letter.get(l)
                    if o is None:
                        raise Reject("bundle-undeclared-letter")
                    if o["kind"] != "t":
                        raise Reject("bundle-option-letter" if o["kind"] == "o"
                                     else "bundle-multi-letter")
                    counts[o["name"]] = counts.get(o["name"], 0) + 1
                for name, k in counts.items():
                    toggle_on(by_long[name], k)
                i += 1
                continue
            target = by_letter.get(t.letters[0])
            if target is None:
                raise Reject("unknown-letter")
        if target["kind"] == "t":
            if t.value is not None:
                raise Reject("toggle-with-value")
            if off:
                toggle_off(target)
            else:
                toggle_on(target, 1)
            i += 1
            continue
        # value-taking
        if t.value is not None:
            v = t.value
        elif i + 1 < n and toks[i + 1].kind == "value":
            v = argv[i + 1]
            i += 1
        else:
            raise Reject("missing-value")
        if target["kind"] == "o":
            if val[target["name"]] is not None:
                raise Reject("option-given-twice")
            val[target["name"]] = v
        else:
            mul[target["name"]].append(v)
        dirty.add(target["name"])
        i += 1

    for o in opts:
        name = o["name"]
        e = env.get(o["env"]) if o.get("env") else None
        if o["kind"] == "o":
            if val[name] is None:
                if e:
                    val[name] = e
                    dirty.add(name)
                elif o.get("default") is not None:
                    val[name] = o["default"]
                elif not o.get("optional"):
                    raise Reject("required-missing")
            ex.o[name] = val[name]
        elif o["kind"] == "m":
            if not mul[name]:
                if e:
                    alts = split_env_multi(e)
                    mul[name] = alts[0]
                    ex.m_alt[name] = alts
                    dirty.add(name)
                elif o.get("default") is not None:
                    mul[name] = list(o["default"])
                elif not o.get("optional"):
                    raise Reject("required-missing")
            ex.m[name] = mul[name]
        else:
            if name not in dirty:
                if e:
                    if e in TRUTHY:
                        cnt[name] = 1
                    elif e in FALSY:
                        cnt[name] = 0
                    else:
                        raise Reject("toggle-env-word")
                    dirty.add(name)
                else:
                    cnt[name] = o.get("default") or 0
            ex.t[name] = cnt[name]
    ex.prov = dirty
    ex.pos = pos


# ---------------------------------------------------------------------------------------
# observed results

class Obs:
    __slots__ = ("exc", "o", "m", "t", "prov", "pos", "idx", "broken")

    def __init__(self):
        self.exc = None
        self.o, self.m, self.t, self.prov, self.pos, self.idx = {}, {}, {}, set(), [], {}
        self.broken = []


def _unhx(s):
    return bytes.fromhex(s[1:])


def _list(s):
    return [] if s == "-" else [_unhx(x) for x in s.split(",")]


def parse_observed(line):
    """line: 'P ok ; o:..' or 'P !type'"""
    ob = Obs()
    assert line.startswith("P "), line
    if line.startswith("P !"):
        ob.exc = line[3:].strip()
        return ob
    for part in line.split(" ; ")[1:]:
        f = part.split(":")
        k = f[0]
        if k in "omt" and len(k) == 1:
            name = _unhx(f[1])
            if f[2].startswith("!"):
                ob.broken.append("%s:%r:%s" % (k, name, ":".join(f[2:])))
                continue
            if k == "o":
                if f[2] == "N":
                    ob.o[name] = None
                elif f[2].startswith("V"):
                    ob.o[name] = _unhx(f[2][1:])
                else:
                    ob.broken.append(part)
                    continue
                prov = f[3]
            elif k == "m":
                lst = _list(f[3])
                if int(f[2]) != len(lst) or "MISMATCH" in f:
                    ob.broken.append("multi count/get mismatch %r" % name)
                ob.m[name] = lst
                prov = f[4]
            else:
                ob.t[name] = int(f[2])
                prov = f[3]
            if prov == "1":
                ob.prov.add(name)
        elif k == "pos":
            ob.pos = _list(f[1])
        elif k == "idx":
            for item in f[1].split(","):
                i, v = item.split("=", 1)
                ob.idx[int(i)] = v
    return ob


def compare(ex, ob):
    """-> list of (field-kind, description) differences between an accepting expectation and
    an accepting observation"""
    diffs = []
    for b in ob.broken:
        diffs.append(("access", "reading the result failed: %s" % b))
    for name, v in ex.o.items():
        if name not in ob.o:
            diffs.append(("option-value", "option %r not reported" % name))
        elif ob.o[name] != v:
            diffs.append(("option-value", "option %r: expected %r got %r" % (name, v, ob.o[name])))
    for name, v in ex.m.items():
        alts = ex.m_alt.get(name, [v])
        if name not in ob.m:
            diffs.append(("multi-list", "multi-option %r not reported" % name))
        elif ob.m[name] not in alts:
            diffs.append(("multi-list", "multi-option %r: expected %r got %r" % (name, v, ob.m[name])))
    for name, v in ex.t.items():
        if name not in ob.t:
            diffs.append(("toggle-count", "toggle %r not reported" % name))
        elif ob.t[name] != v:
            diffs.append(("toggle-count", "toggle %r: expected %d got %d" % (name, v, ob.t[name])))
    if ob.pos != ex.pos:
        diffs.append(("positionals", "positionals: expected %r got %r" % (ex.pos, ob.pos)))
    if ob.prov != ex.prov:
        diffs.append(("provided", "provided: expected %r got %r" % (sorted(ex.prov), sorted(ob.prov))))
    return diffs


def check_indices(ob):
    """C12: get(i) for every i in [-n-1, n] against the observed positionals"""
    diffs = []
    n = len(ob.pos)
    for i in range(-n - 1, n + 1):
        got = ob.idx.get(i)
        if got is None:
            diffs.append("index %d not probed" % i)
            continue
        j = i + n if i < 0 else i
        if 0 <= j < n:
            want = "x" + ob.pos[j].hex()
            if got != want:
                diffs.append("get(%d): expected %r got %s" % (i, ob.pos[j], got))
        else:
            if not got.startswith("!"):
                diffs.append("get(%d) out of range did not raise: %s" % (i, got))
    return diffs
