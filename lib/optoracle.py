"""Shared judging of one parse against the reference model; each check projects it."""
import optgen
import optrun
from optmodel import classify, compare, model_parse, parse_observed


def features(decl, env, argv):
    """names the hostile input classes present in a case; used in violation keys for
    'model accepts, implementation rejects / throws' so that keys stay narrow"""
    f = set()
    first_dd = next((i for i, t in enumerate(argv) if t == b"--"), len(argv))
    for i, t in enumerate(argv):
        c = classify(t)
        if c.kind == "malformed" and i > first_dd:
            f.add("malformed-token-after-dd")
        if c.kind in ("long", "short") and c.value is not None:
            if b"\n" in c.value or b"\r" in c.value:
                f.add("linebreak-in-eq-value")
        if len(t) >= 4096:
            f.add("token>=4KiB")
        if c.kind == "value" and (b"\n" in t):
            f.add("linebreak-in-value-token")
    for o in decl["opts"]:
        e = env.get(o["env"]) if o.get("env") else None
        if e:
            if o["kind"] in "om":
                if e.startswith(b"-") or (o["kind"] == "m" and any(p.startswith(b"-") for p in e.split(b";"))):
                    f.add("env-value-starts-with-dash")
                elif b"=" in e:
                    f.add("env-value-with-eq")
                elif len(e) >= 4096:
                    f.add("env-value>=4KiB")
                else:
                    f.add("env-value")
            else:
                f.add("env-toggle-word")
    # the most specific hostile class only, so that keys stay few and narrow
    for k in ("malformed-token-after-dd", "linebreak-in-eq-value", "env-value-starts-with-dash",
              "token>=4KiB", "env-value>=4KiB", "env-value-with-eq", "env-value", "env-toggle-word",
              "linebreak-in-value-token"):
        if k in f:
            return k
    return "plain"


def judge(decl, env, argv, line, mode="A"):
    """-> (kind, key_suffix, description, ex, ob)
    kind in agree-accept | agree-reject | accepted-unexpectedly | rejected-unexpectedly |
            wrong-exception | wrong-result"""
    ex = model_parse(decl, env, argv, mode)
    ob = parse_observed(line)
    if ob.exc is not None:
        if ob.exc != "parsing_error":
            return ("wrong-exception",
                    "%s:%s" % (ob.exc, ex.reject or "model-accepts:" + features(decl, env, argv)),
                    "parse let %s escape (model: %s)" % (ob.exc, ex.reject or "accept"), ex, ob)
        if ex.reject is None:
            return ("rejected-unexpectedly", features(decl, env, argv),
                    "parse threw parsing_error although the vector is acceptable", ex, ob)
        return ("agree-reject", ex.reject, "", ex, ob)
    if ex.reject is not None:
        return ("accepted-unexpectedly", ex.reject,
                "parse returned although the model rejects (%s)" % ex.reject, ex, ob)
    diffs = compare(ex, ob)
    if diffs:
        return ("wrong-result", diffs[0][0], "; ".join(d[1] for d in diffs), ex, ob)
    return ("agree-accept", "", "", ex, ob)


def show(decl, env, argv):
    return {"declaration": decl.get("label") or [_show_opt(o) for o in decl["opts"]],
            "positionals": [decl.get("pos"), bool(decl.get("greedy"))],
            "env": {k.decode("latin-1"): v.decode("latin-1") for k, v in (env or {}).items()},
            "argv": [t.decode("latin-1") if len(t) < 200 else "<%d bytes: %s...>" % (len(t), t[:20].decode("latin-1"))
                     for t in argv]}


def _show_opt(o):
    s = {"o": "option", "m": "multi", "t": "toggle"}[o["kind"]] + " --" + o["name"].decode("latin-1")
    if o.get("short"):
        s += " -" + o["short"].decode("latin-1")
    if o.get("rev"):
        s += " reversible"
    if o.get("env"):
        s += " env=" + o["env"].decode("latin-1")
    if o.get("default") is not None:
        s += " default=%r" % (o["default"],)
    if o["kind"] in "om" and not o.get("optional"):
        s += " required"
    return s


def single_script(cid, case, mode="A", cpu=None):
    """one judged parse; case["earlier"] (a list of vectors) is parsed first on the SAME parser object - the
    judged parse must not depend on that history (accepted, rejected half-way, anything)"""
    acts = [("parse", "A", v) for v in case.get("earlier") or []]
    acts.append(("parse", case.get("mode", mode), case["argv"]))
    text, _ = optrun.case_script(cid, case["decl"], case.get("env") or {}, acts, cpu=cpu)
    return text


def judged_line(lines):
    """the output line of the judged (= last) parse of a case"""
    pl = [l for l in lines if l.startswith("P ")]
    return pl[-1] if pl else None
