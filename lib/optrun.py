"""Script builder for harness/optdrv.cpp and chunked parallel execution helpers."""
import hashlib
import multiprocessing
import os
import sys
from collections import Counter

import build
import driver
from driver import hx


def decl_lines(decl, first_opt=0, upto_opt=None):
    """Commands that build the parser of a declaration dict (see optmodel.py).  With first_opt > 0
    only the option lines from that index on are produced (a parser that grows after it was used);
    upto_opt stops before that option index."""
    L = []
    if first_opt == 0:
        new = ["NEW", hx(decl.get("app", b"prog"))]
        if decl.get("about") is not None or decl.get("group_name") is not None:
            new.append(hx(decl.get("about") or b""))
        if decl.get("group_name") is not None:
            new.append(hx(decl["group_name"]))
        L.append(" ".join(new))
        for gi, g in enumerate(decl.get("groups", [])):
            L.append("GRP %d %s %s" % (gi, hx(g[0]), hx(g[1])))
    for oi, o in enumerate(decl["opts"]):
        if oi < first_opt or (upto_opt is not None and oi >= upto_opt):
            continue
        cmd = {"o": "OPT", "m": "MUL", "t": "TOG"}[o["kind"]]
        g = -1 if o.get("group") is None else o["group"]
        L.append("%s %d %d %s %s" % (cmd, g, oi, hx(o["name"]), hx(o.get("desc", b""))))
        if o.get("short"):
            L.append("SN %d %s" % (oi, hx(o["short"])))
        if o.get("env"):
            L.append("EV %d %s" % (oi, hx(o["env"])))
        if o.get("metavar"):
            L.append("MV %d %s" % (oi, hx(o["metavar"])))
        d = o.get("default")
        if d is not None:
            if o["kind"] == "o":
                L.append("DV %d %s" % (oi, hx(d)))
            elif o["kind"] == "m":
                L.append(("DV %d " % oi) + " ".join(hx(x) for x in d))
            else:
                L.append("DV %d %d" % (oi, d))
        if o.get("optional") and o["kind"] in "om":
            L.append("OP %d" % oi)
        if o.get("rev") and o["kind"] == "t":
            L.append("RV %d" % oi)
        # the parser is USED before it is complete (declare, use, declare more): raw driver lines after option oi
        for at, raw in decl.get("interleave", ()):
            if at == oi:
                L.append(raw)
    if first_opt > 0:
        return L
    if decl.get("greedy") and decl.get("greedy_first"):
        L.append("GRD 1")
    if decl.get("pos") is not None:
        L.append("ACC %s" % decl["pos"])
    if decl.get("greedy") and not decl.get("greedy_first"):
        L.append("GRD 1")
    if decl.get("pos_metavar"):
        L.append("PMV %s" % hx(decl["pos_metavar"]))
    if decl.get("moved"):
        # the finished parser is move-constructed ("MOVE") or move-assigned into a used parser ("MOVEA")
        # before it is used: it must behave like the original
        L.append(decl["moved"])
    return L


def action_lines(actions):
    L = []
    for a in actions:
        k = a[0]
        if k == "parse":
            L.append(" ".join(["PARSE", a[1]] + [hx(t) for t in a[2]]))
        elif k == "setenv":
            L.append("SETENV %s %s" % (hx(a[1]), hx(a[2])))
        elif k == "unsetenv":
            L.append("UNSETENV %s" % hx(a[1]))
        elif k == "usage":
            L.append("USAGE %s" % a[1] + (" " + hx(a[2]) if a[1] == "S" else ""))
        elif k == "as":
            L.append("AS %s %s %d %s" % (a[1], hx(a[2]), a[3], a[4]))
        elif k == "move":
            L.append("MOVE")
        elif k == "decl":
            L.extend(decl_lines(a[1]))
        elif k == "raw":
            L.append(a[1])
        else:
            raise ValueError(a)
    return L


def case_script(cid, decl, env, actions, cpu=None):
    """-> (script text, number of output lines before the first action)"""
    L = ["CASE %s%s" % (cid, "" if cpu is None else " %g" % cpu)]
    d = decl_lines(decl) if decl is not None else []
    L.extend(d)
    e = ["SETENV %s %s" % (hx(k), hx(v)) for k, v in sorted((env or {}).items())]
    L.extend(e)
    L.extend(action_lines(actions))
    L.append("END")
    return "\n".join(L) + "\n", len(d) + len(e)


_exe_cache = {}


def _has_verbatim():
    """-> True when user_input::verbatim() exists on this tree (compile probe)"""
    if "verbatim" not in _exe_cache:
        try:
            build.build_exe("gasan", ["opt_verbatim_probe.cpp"])
            _exe_cache["verbatim"] = True
        except build.BuildError:
            _exe_cache["verbatim"] = False
    return _exe_cache["verbatim"]


def optdrv(tag="gasan"):
    if tag not in _exe_cache:
        _exe_cache[tag] = build.build_exe(tag, ["optdrv.cpp"], build.OPTIONS_SRCS,
                                          extra=[] if _has_verbatim() else ["-DOPT_NO_VERBATIM"])
    return _exe_cache[tag]


def h64(*parts):
    h = hashlib.blake2b(digest_size=8)
    for p in parts:
        h.update(repr(p).encode())
        h.update(b"\0")
    return int.from_bytes(h.digest(), "big")


class Summary:
    """picklable per-chunk result, mergeable"""

    def __init__(self):
        self.n = 0
        self.counters = Counter()
        self.distinct = set()
        self.viol = []       # (key, what, case)
        self.samples = []
        self.inconc = []
        self.extra = {}

    def merge(self, other):
        self.n += other.n
        self.counters.update(other.counters)
        self.distinct |= other.distinct
        seen = {k for k, _, _ in self.viol}
        for v in other.viol:
            if v[0] not in seen or len([1 for x in self.viol if x[0] == v[0]]) < 3:
                self.viol.append(v)
        for s in other.samples:
            if len(self.samples) < 6:
                self.samples.append(s)
        self.inconc.extend(x for x in other.inconc if x not in self.inconc)
        for k, v in other.extra.items():
            if isinstance(v, (int, float)):
                self.extra[k] = self.extra.get(k, 0) + v
            elif isinstance(v, set):
                self.extra.setdefault(k, set()).update(v)
            elif isinstance(v, Counter):
                self.extra.setdefault(k, Counter()).update(v)
            else:
                self.extra[k] = v

    def violation(self, key, what, case):
        if len([1 for x in self.viol if x[0] == key]) < 2:
            self.viol.append((key, what, case))
        self.counters["violation:" + key] += 1


def nproc():
    try:
        return max(1, min(16, int(os.environ.get("VERIF_JOBS", "0")) or len(os.sched_getaffinity(0))))
    except Exception:
        return 8


def pmap(fn, jobs):
    """run fn over jobs in a fork pool, yield results"""
    jobs = list(jobs)
    if not jobs:
        return
    n = min(nproc(), len(jobs))
    if n <= 1:
        for j in jobs:
            yield fn(j)
        return
    ctx = multiprocessing.get_context("fork")
    with ctx.Pool(n) as pool:
        for r in pool.imap_unordered(fn, jobs):
            yield r


def crash_violation(summary, res, case, prefix=""):
    """route a crashed / timed-out case through the violation machinery"""
    if res.status == "ok":
        return False
    if res.status == "watchdog":
        summary.inconc.append("wall-clock watchdog fired in case %s" % res.cid)
        return True
    key = prefix + res.key
    summary.violation(key, "%s in case %s\n%s" % (res.status, res.cid, res.report[-3000:]), case)
    return True


def cpp_str(b):
    return '"' + "".join("\\x%02x" % c for c in b) + '"'


def fuzz_decls_inc(decls):
    """C++ code building each declaration dict (used by harness/fuzz_opt.cpp)"""
    L = ["// generated by lib/optrun.py fuzz_decls_inc()", "static const int N_DECLS = %d;" % len(decls),
         "static void build_decl(int i, no::parser& p)", "{", "    switch (i)", "    {"]
    for i, d in enumerate(decls):
        L.append("    case %d:" % i)
        L.append("    {")
        for o in d["opts"]:
            fn = {"o": "option", "m": "multi_option", "t": "toggle"}[o["kind"]]
            L.append("        {")
            L.append("            auto& o = p.%s(std::string(%s, %d));" % (fn, cpp_str(o["name"]), len(o["name"])))
            if o.get("short"):
                L.append("            o.short_name(std::string(%s, 1));" % cpp_str(o["short"]))
            dv = o.get("default")
            if dv is not None:
                if o["kind"] == "o":
                    L.append("            o.default_value(std::string(%s, %d));" % (cpp_str(dv), len(dv)))
                elif o["kind"] == "m":
                    L.append("            o.default_value(std::vector<std::string>{%s});" %
                             ", ".join("std::string(%s, %d)" % (cpp_str(x), len(x)) for x in dv))
                else:
                    L.append("            o.default_value(%d);" % dv)
            if o.get("optional") and o["kind"] in "om":
                L.append("            o.optional();")
            if o.get("rev") and o["kind"] == "t":
                L.append("            o.allow_reverse();")
            L.append("            (void)o;")
            L.append("        }")
        if d.get("pos") is not None:
            L.append("        p.accept_positionals(%s);" % ("" if d["pos"] == "inf" else d["pos"]))
        if d.get("greedy"):
            L.append("        p.greedy_postionals();")
        L.append("        break;")
        L.append("    }")
    L += ["    }", "}"]
    return "\n".join(L) + "\n"
