"""Batched execution for line-per-operation drivers (strdrv): many operations per CASE for
throughput; a CASE that crashes or exceeds its CPU budget is re-run operation by operation so
that the offending input is attributed exactly."""
import driver


MEMCHECK = driver.MEMCHECK


_probe_cache = {}


def join_probe():
    """-> True when nitro::lang::join compiles (and works) for list / single-pass iterators"""
    if "ok" not in _probe_cache:
        import build
        import subprocess
        try:
            exe = build.build_exe("gasan", ["strdrv_join_probe.cpp"])
            _probe_cache["ok"] = subprocess.run([exe], capture_output=True).returncode == 0
        except build.BuildError:
            _probe_cache["ok"] = False
    return _probe_cache["ok"]


def strdrv(tag):
    """the string / format driver; built without the list / single-pass join operations when they do not compile"""
    import build
    return build.build_exe(tag, ["strdrv.cpp"], extra=[] if join_probe() else ["-DSTRDRV_JOIN_RANDOM_ACCESS_ONLY"])


def run_ops(exe, ops, batch=400, cpu=8, tagprefix="b", max_bad=6, env=None, max_bad_batches=3, wrapper=()):
    """ops: list of command lines (str).  Returns list of results aligned with ops:
    ('ok', line) | ('crash', key, report) | ('timeout',) | ('watchdog',) | ('missing',)"""
    results = [None] * len(ops)
    cases = []
    for b in range(0, len(ops), batch):
        cid = "%s%d" % (tagprefix, b)
        cases.append((cid, "CASE %s %g\n%s\nEND\n" % (cid, cpu, "\n".join(ops[b:b + batch]))))
    env = dict(env or {})
    env.setdefault("ASAN_OPTIONS", driver.SAN_ENV["ASAN_OPTIONS"].replace("max_allocation_size_mb=2048",
                                                                         "max_allocation_size_mb=256"))
    res = {}
    failing = 0
    for g in range(0, len(cases), 8):
        if failing >= max_bad_batches:
            break   # enough failing batches: the rest is reported as skipped
        part = driver.run_cases(exe, cases[g:g + 8], retry_timeouts=False, env=env, wrapper=wrapper)
        failing += sum(1 for r in part.values() if r.status != "ok")
        res.update(part)
    redo = []
    for b in range(0, len(ops), batch):
        cid = "%s%d" % (tagprefix, b)
        r = res.get(cid)
        n = min(batch, len(ops) - b)
        if r is not None and r.status == "ok" and len(r.lines) == n:
            for i in range(n):
                results[b + i] = ("ok", r.lines[i])
        elif r is None and failing >= max_bad_batches:
            for i in range(n):
                results[b + i] = ("skipped",)
        else:
            redo.extend(range(b, b + n))
    bad = 0
    # operation by operation, in groups, until max_bad offending inputs have been attributed
    for g in range(0, len(redo), 50):
        group = redo[g:g + 50]
        if bad >= max_bad:
            for i in group:
                results[i] = ("skipped",)
            continue
        singles = [("s%d" % i, "CASE s%d %g\n%s\nEND\n" % (i, 15.0 if wrapper else 2.0, ops[i])) for i in group]
        res = driver.run_cases(exe, singles, retry_timeouts=True, env=env, wrapper=wrapper)
        for i in group:
            r = res.get("s%d" % i)
            if r is None or r.status != "ok":
                bad += 1
            if r is None:
                results[i] = ("missing",)
            elif r.status == "ok" and len(r.lines) == 1:
                results[i] = ("ok", r.lines[0])
            elif r.status == "timeout":
                results[i] = ("timeout",)
            elif r.status == "watchdog":
                results[i] = ("watchdog",)
            elif r.status == "crash":
                results[i] = ("crash", r.key, r.report)
            elif r.status == "skipped":
                results[i] = ("skipped",)
            else:
                results[i] = ("missing",)
    return results
