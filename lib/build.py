"""Content-hash keyed sanitizer builds of /repo sources + harnesses.

Every object file is keyed by (compiler, flags, TU contents, contents of every
header under /repo/include, /repo/src and /verif/harness).  An edit anywhere in
/repo therefore rebuilds, an unchanged tree reuses objects.  Nothing is kept
under /tmp; the cache lives in /verif/.build (git-ignored) and is pruned by age.
"""
import fcntl
import hashlib
import os
import subprocess
import sys
import time
from concurrent.futures import ThreadPoolExecutor

VERIF = os.path.dirname(os.path.dirname(os.path.abspath(__file__)))
REPO = os.environ.get("NITRO_REPO", "/repo")
CACHE = os.path.join(VERIF, ".build")
HARNESS = os.path.join(VERIF, "harness")

COMMON = ["-std=c++17", "-g", "-fno-omit-frame-pointer", "-I" + os.path.join(REPO, "include"),
          "-I" + HARNESS, "-DNITRO_VERIF", "-pthread"]

TAGS = {
    # tag: (compiler, compile flags, link flags)
    "gasan": ("g++", ["-O1", "-fsanitize=address,undefined", "-fno-sanitize-recover=all",
                      "-D_GLIBCXX_ASSERTIONS"],
              ["-fsanitize=address,undefined"]),
    "casan": ("clang++", ["-O1", "-fsanitize=address,undefined", "-fno-sanitize-recover=all",
                          "-fno-sanitize=object-size", "-D_GLIBCXX_ASSERTIONS"],
              ["-fsanitize=address,undefined"]),
    "gtsan": ("g++", ["-O1", "-fsanitize=thread"], ["-fsanitize=thread"]),
    "ctsan": ("clang++", ["-O1", "-fsanitize=thread"], ["-fsanitize=thread"]),
    "plain": ("g++", ["-O1"], []),
    "plain2": ("g++", ["-O2"], []),
    "cplain": ("clang++", ["-O2"], []),      # another compiler AND another optimisation level, uninstrumented
    "cfuzz": ("clang++", ["-O1", "-fsanitize=fuzzer,address,undefined",
                          "-fno-sanitize-recover=all", "-fno-sanitize=object-size"],
              ["-fsanitize=fuzzer,address,undefined"]),
}

OPTIONS_SRCS = ["src/options/parser.cpp", "src/options/group.cpp", "src/options/option.cpp",
                "src/options/multi_option.cpp", "src/options/toggle.cpp", "src/env/get.cpp"]
ENV_SRCS = ["src/env/get.cpp"]


class BuildError(Exception):
    pass


_tree_hash_cache = {}


def _hash_tree(roots, exts):
    key = (tuple(roots), tuple(exts))
    if key in _tree_hash_cache:
        return _tree_hash_cache[key]
    h = hashlib.sha256()
    for root in roots:
        for dp, dn, fn in sorted(os.walk(root)):
            dn.sort()
            for f in sorted(fn):
                if exts and not f.endswith(exts):
                    continue
                p = os.path.join(dp, f)
                h.update(p.encode())
                h.update(b"\0")
                with open(p, "rb") as fh:
                    h.update(fh.read())
                h.update(b"\0")
    _tree_hash_cache[key] = h.hexdigest()
    return _tree_hash_cache[key]


def headers_hash():
    return _hash_tree([os.path.join(REPO, "include"), os.path.join(REPO, "src"), HARNESS],
                      (".hpp", ".h", ".ipp", ".inc"))


def repo_tree_hash():
    return _hash_tree([os.path.join(REPO, "include"), os.path.join(REPO, "src")], ())


_compiler_id = {}


def compiler_id(cc):
    if cc not in _compiler_id:
        _compiler_id[cc] = subprocess.run([cc, "--version"], capture_output=True,
                                          text=True).stdout.splitlines()[0]
    return _compiler_id[cc]


def _ensure_dirs():
    for d in ("obj", "exe", "lock", "tmp"):
        os.makedirs(os.path.join(CACHE, d), exist_ok=True)


class _Lock:
    def __init__(self, name):
        self.path = os.path.join(CACHE, "lock", name)

    def __enter__(self):
        self.fh = open(self.path, "w")
        fcntl.flock(self.fh, fcntl.LOCK_EX)
        return self

    def __exit__(self, *a):
        fcntl.flock(self.fh, fcntl.LOCK_UN)
        self.fh.close()
        try:
            os.unlink(self.path)
        except OSError:
            pass


def _run(cmd, what):
    p = subprocess.run(cmd, capture_output=True, text=True, errors="replace")
    if p.returncode != 0:
        raise BuildError("%s failed:\n%s\n%s" % (what, " ".join(cmd), (p.stdout + p.stderr)[-6000:]))
    return p


def compile_obj(tag, src, extra=()):
    """Compile one TU, return the path of the cached object file."""
    _ensure_dirs()
    cc, cflags, _ = TAGS[tag]
    if src.endswith(".c"):
        cc = {"g++": "gcc", "clang++": "clang"}[cc]
        flags = [f for f in cflags + COMMON if not f.startswith("-std=")] + list(extra)
    else:
        flags = cflags + COMMON + list(extra)
    with open(src, "rb") as fh:
        content = fh.read()
    h = hashlib.sha256()
    h.update(("\0".join([compiler_id(cc)] + flags + [src])).encode())
    h.update(content)
    h.update(headers_hash().encode())
    key = h.hexdigest()[:32]
    out = os.path.join(CACHE, "obj", key + ".o")
    if os.path.exists(out):
        os.utime(out)
        return out
    with _Lock(key):
        if os.path.exists(out):
            return out
        tmp = os.path.join(CACHE, "tmp", "%s.%d.o" % (key, os.getpid()))
        _run([cc] + flags + ["-c", src, "-o", tmp], "compile " + src)
        os.rename(tmp, out)
    return out


def build_exe(tag, harness_srcs, repo_srcs=(), extra=(), link=(), name=None):
    """Build an executable from harness sources (paths relative to /verif/harness or
    absolute) and repo sources (relative to /repo).  Returns the executable path."""
    _ensure_dirs()
    srcs = [s if os.path.isabs(s) else os.path.join(HARNESS, s) for s in harness_srcs]
    srcs += [os.path.join(REPO, s) for s in repo_srcs]
    with ThreadPoolExecutor(max_workers=min(16, max(1, len(srcs)))) as ex:
        objs = list(ex.map(lambda s: compile_obj(tag, s, extra), srcs))
    cc, _, lflags = TAGS[tag]
    h = hashlib.sha256("\0".join(objs + list(link) + lflags).encode()).hexdigest()[:32]
    base = (name or os.path.splitext(os.path.basename(srcs[0]))[0]) + "-" + tag + "-" + h
    out = os.path.join(CACHE, "exe", base)
    if os.path.exists(out):
        os.utime(out)
        return out
    with _Lock("x" + h):
        if os.path.exists(out):
            return out
        tmp = os.path.join(CACHE, "tmp", "%s.%d" % (base, os.getpid()))
        _run([cc] + objs + lflags + ["-pthread"] + list(link) + ["-o", tmp], "link " + base)
        os.rename(tmp, out)
    return out


def build_shared(tag, src, name, extra=()):
    """Build a small shared object (for the dl histories); returns its path."""
    _ensure_dirs()
    cc = "gcc" if src.endswith(".c") else "g++"
    with open(src if os.path.isabs(src) else os.path.join(HARNESS, src), "rb") as fh:
        content = fh.read()
    h = hashlib.sha256(content + repr(extra).encode() + compiler_id(cc).encode()).hexdigest()[:16]
    d = os.path.join(CACHE, "exe", "so-" + h)
    os.makedirs(d, exist_ok=True)
    out = os.path.join(d, name)
    if os.path.exists(out):
        return out
    tmp = out + ".%d.tmp" % os.getpid()
    _run([cc, "-shared", "-fPIC", "-O1", "-g"] + list(extra) +
         [src if os.path.isabs(src) else os.path.join(HARNESS, src), "-o", tmp], "shared " + name)
    os.rename(tmp, out)
    return out


def prune(max_age_s=3 * 24 * 3600, max_bytes=6 << 30):
    """Remove cache entries that were not used recently (age) or exceed the size budget."""
    if not os.path.isdir(CACHE):
        return
    now = time.time()
    entries = []
    for sub in ("obj", "exe", "tmp"):
        d = os.path.join(CACHE, sub)
        if not os.path.isdir(d):
            continue
        for f in os.listdir(d):
            p = os.path.join(d, f)
            try:
                st = os.stat(p)
            except OSError:
                continue
            if os.path.isdir(p):
                continue
            entries.append((st.st_mtime, st.st_size, p, sub))
    entries.sort(reverse=True)
    total = 0
    for mtime, size, p, sub in entries:
        total += size
        if (sub == "tmp" and now - mtime > 3600) or now - mtime > max_age_s or total > max_bytes:
            try:
                os.unlink(p)
            except OSError:
                pass


if __name__ == "__main__":
    # warm the cache: used by MANIFEST.setup_cmd
    t = time.time()
    exe = build_exe("gasan", ["optdrv.cpp"], OPTIONS_SRCS)
    print("built", exe, "in %.1fs" % (time.time() - t))
    prune()
