"""Run harness drivers on scripts of cases with crash attribution.

A driver reads a script from stdin.  Each case starts with `CASE <id> [cpu_s]` and ends
with `END`; the driver prints `BEGIN <id>` (flushed) before and `END <id>` after each
case.  If the process dies (sanitizer report, abort, signal, CPU-time budget exceeded)
the case that was executing is known; it is recorded with the report and the driver is
restarted on the remaining cases so that one defect does not mask the rest.
"""
import os
import re
import signal
import subprocess
import tempfile

from build import CACHE

SAN_ENV = {
    "ASAN_OPTIONS": "abort_on_error=0:exitcode=66:detect_leaks=1:detect_stack_use_after_return=1:"
                    "allocator_may_return_null=1:max_allocation_size_mb=2048",
    "UBSAN_OPTIONS": "print_stacktrace=1:halt_on_error=1:exitcode=67",
    "LSAN_OPTIONS": "exitcode=68",
    "TSAN_OPTIONS": "halt_on_error=1:second_deadlock_stack=1:exitcode=69",
}

WALL_WATCHDOG_S = 1800  # only keeps the check bounded; firing => inconclusive


def hx(b):
    if isinstance(b, str):
        b = b.encode("utf-8", "surrogateescape")
    return "x" + bytes(b).hex()


def unhx(s):
    assert s[:1] == "x", s
    return bytes.fromhex(s[1:])


class CaseResult:
    __slots__ = ("cid", "status", "lines", "report", "key")

    def __init__(self, cid, status, lines, report="", key=""):
        self.cid = cid
        self.status = status      # ok | crash | timeout | watchdog
        self.lines = lines
        self.report = report
        self.key = key


_frame_re = re.compile(r"#\d+ 0x[0-9a-f]+ in (.+?) (/\S+?):(\d+)")
_frame_noline_re = re.compile(r"#\d+ 0x[0-9a-f]+ in (.+?) \(")


def _strip_fn(fn):
    fn = re.sub(r"\(.*$", "", fn)
    fn = re.sub(r"<[^<>]*>", "", fn)
    fn = re.sub(r"<[^<>]*>", "", fn)
    fn = re.sub(r"\[abi:[^\]]*\]", "", fn)
    return fn.strip().split(" ")[-1]


def classify_report(report, returncode):
    """Deterministic violation key for a crash: report kind + innermost frame inside
    /repo (function name, line numbers stripped)."""
    kind = None
    m = re.search(r"ERROR: (AddressSanitizer|LeakSanitizer|ThreadSanitizer): ([A-Za-z\-_ ]+)", report)
    if m:
        k = m.group(2).strip().split(" on ")[0].strip()
        k = k.replace(" ", "-")
        if m.group(1) == "LeakSanitizer":
            kind = "lsan:leak"
        elif m.group(1) == "ThreadSanitizer":
            kind = "tsan:" + k
        else:
            kind = "asan:" + k
    m2 = re.search(r"WARNING: ThreadSanitizer: ([a-z \-]+)", report)
    if kind is None and m2:
        kind = "tsan:" + m2.group(1).strip().replace(" ", "-")
    if kind is None:
        m = re.search(r"(\S+?):(\d+):(\d+): runtime error: (.*)", report)
        if m:
            msg = re.sub(r"0x[0-9a-f]+", "P", m.group(4))
            msg = re.sub(r"\d+", "N", msg)
            msg = re.sub(r"[^A-Za-z0-9]+", "-", msg).strip("-")[:60]
            kind = "ubsan:" + msg + "@" + os.path.basename(m.group(1))
    if kind is None:
        m = re.search(r"Assertion '(.*?)' failed", report)
        if m:
            fn = ""
            m3 = re.search(r"In function: (.*?)\n", report)
            if m3:
                fn = _strip_fn(m3.group(1))
            kind = "glibcxx-assert:" + re.sub(r"[^A-Za-z0-9_<>=!]+", "-", m.group(1))[:50] + "@" + fn
    if kind is None:
        m = re.search(r"==\d+== (Invalid read|Invalid write|Conditional jump or move depends on uninitialised|"
                      r"Use of uninitialised value|Invalid free|Mismatched free|Syscall param[^\n]*uninitialised|"
                      r"Source and destination overlap)", report)
        if m:
            kind = "memcheck:" + m.group(1).split(" depends")[0].replace(" ", "-")
            for line in report.splitlines():
                fm = re.search(r"==\d+==\s+(?:at|by) 0x[0-9A-F]+: (.+?) \((.+?)\)", line)
                if fm and ("nitro::" in fm.group(1) or "/repo/" in fm.group(2) or "nitro/" in fm.group(2)):
                    kind += "@" + _strip_fn(fm.group(1))
                    break
    if kind is None and "terminate called" in report:
        m = re.search(r"terminate called after throwing an instance of '(.*?)'", report)
        kind = "terminate:" + (m.group(1) if m else "unknown")
    if kind is None:
        if returncode is not None and returncode < 0:
            try:
                kind = "signal:" + signal.Signals(-returncode).name
            except ValueError:
                kind = "signal:%d" % -returncode
        else:
            kind = "exit:%s" % returncode
    where = ""
    for line in report.splitlines():
        m = _frame_re.search(line)
        if m and "/repo/" in m.group(2):
            where = _strip_fn(m.group(1))
            break
    if not where:
        for line in report.splitlines():
            m = _frame_re.search(line) or _frame_noline_re.search(line)
            if m and "nitro::" in m.group(1):
                where = _strip_fn(m.group(1))
                break
    if where and "@" not in kind:
        kind += "@" + where
    return kind


def _split_cases(out):
    """-> dict cid -> (lines, ended, timeout)"""
    res = {}
    order = []
    cur = None
    for line in out.split("\n"):
        if line.startswith("BEGIN "):
            cur = line[6:].strip()
            res[cur] = [[], False, False]
            order.append(cur)
        elif line.startswith("END "):
            c = line[4:].strip()
            if c in res:
                res[c][1] = True
            cur = None
        elif line.startswith("TIMEOUT "):
            c = line[8:].strip()
            if c in res:
                res[c][2] = True
            cur = None
        elif cur is not None and line:
            res[cur][0].append(line)
    return res, order


MAX_FAILED_CASES_PER_CALL = 12
# valgrind memcheck as a wrapper of an uninstrumented build: uninitialised-value errors only (lib/memcheck.supp)
MEMCHECK = ("valgrind", "-q", "--vgdb=no", "--error-exitcode=71", "--exit-on-first-error=yes", "--track-origins=no",
            "--suppressions=" + os.path.join(os.path.dirname(os.path.abspath(__file__)), "memcheck.supp"))


def run_cases(exe, cases, args=(), env=None, wall_s=WALL_WATCHDOG_S, wrapper=(),
              retry_timeouts=True):
    """as _run_cases; a case that exceeded its CPU budget is re-run once alone and counts as
    a timeout only if that reproduces (otherwise the second result is used)"""
    results = _run_cases(exe, cases, args, env, wall_s, wrapper)
    if retry_timeouts:
        scripts = dict(cases)
        for cid, r in list(results.items()):
            if r.status == "timeout" and cid in scripts:
                again = _run_cases(exe, [(cid, scripts[cid])], args, env, wall_s, wrapper)
                if cid in again and again[cid].status != "timeout":
                    results[cid] = again[cid]
    return results


def _run_cases(exe, cases, args=(), env=None, wall_s=WALL_WATCHDOG_S, wrapper=()):
    """cases: list of (cid, script_text) where script_text starts with 'CASE <cid>...'
    and ends with 'END\\n'.  Returns dict cid -> CaseResult.  cids must be unique and
    contain no whitespace."""
    results = {}
    remaining = list(cases)
    failures = 0
    full_env = dict(os.environ)
    full_env.update(SAN_ENV)
    if env:
        full_env.update(env)
    os.makedirs(os.path.join(CACHE, "tmp"), exist_ok=True)
    while remaining:
        with tempfile.TemporaryFile(dir=os.path.join(CACHE, "tmp")) as fin:
            fin.write("".join(s for _, s in remaining).encode("latin-1"))
            fin.flush()
            fin.seek(0)
            try:
                p = subprocess.run(list(wrapper) + [exe] + list(args), stdin=fin,
                                   capture_output=True, env=full_env, timeout=wall_s)
                out, err, rc, wd = p.stdout, p.stderr, p.returncode, False
            except subprocess.TimeoutExpired as e:
                out, err, rc, wd = e.stdout or b"", e.stderr or b"", None, True
        out = out.decode("latin-1")
        err = err.decode("latin-1", "replace")
        per, order = _split_cases(out)
        idx = {cid: i for i, (cid, _) in enumerate(remaining)}
        last_done = -1
        failed = None
        for cid in order:
            lines, ended, timeout = per[cid]
            if ended:
                results[cid] = CaseResult(cid, "ok", lines)
                last_done = max(last_done, idx.get(cid, -1))
            else:
                failed = cid
                if timeout:
                    results[cid] = CaseResult(cid, "timeout", lines, err[-4000:], "timeout")
                elif wd:
                    results[cid] = CaseResult(cid, "watchdog", lines, err[-4000:], "watchdog")
                else:
                    results[cid] = CaseResult(cid, "crash", lines, err[-12000:],
                                              classify_report(err, rc))
                last_done = max(last_done, idx.get(cid, -1))
        if failed is None:
            if rc not in (0, None) or wd:
                # died outside any case (e.g. leak report at exit, or before the first case)
                results["__process__"] = CaseResult(
                    "__process__", "watchdog" if wd else "crash", [], err[-12000:],
                    "watchdog" if wd else classify_report(err, rc))
            if last_done + 1 < len(remaining) and rc in (0, None) and not wd:
                # driver stopped reading without failing: should not happen
                results["__process__"] = CaseResult("__process__", "crash", [], err[-4000:],
                                                    "driver-stopped-early")
            break
        remaining = remaining[last_done + 1:]
        failures += 1
        if failures >= MAX_FAILED_CASES_PER_CALL and remaining:
            # a tree on which (nearly) every case dies: the witnesses collected so far decide the run; the cases
            # that were not executed are reported as skipped (the caller turns skipped cases without any recorded
            # violation into an inconclusive run)
            for cid, _ in remaining:
                results[cid] = CaseResult(cid, "skipped", [], "", "skipped-after-%d-failed-cases" % failures)
            break
    return results
