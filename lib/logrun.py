"""Builds and runs the generated logging programs (C05, C10) and projects the event logs."""
import os
import subprocess
from collections import Counter

import build
import driver
import loggen
import optrun


def _build_and_run(arg):
    seed, minsev, tag = arg
    prog = loggen.gen_program(seed)
    src_dir = os.path.join(build.CACHE, "gen")
    os.makedirs(src_dir, exist_ok=True)
    path = os.path.join(src_dir, "logprog_%d.cpp" % seed)
    text = loggen.source(prog)
    if not os.path.exists(path) or open(path).read() != text:
        tmp = path + ".%d.tmp" % os.getpid()
        with open(tmp, "w") as fh:
            fh.write(text)
        os.rename(tmp, path)
    try:
        exe = build.build_exe(tag if tag != "memcheck" else "plain", [path],
                              extra=["-DNITRO_LOG_MIN_SEVERITY=" + loggen.SEVS[minsev]],
                              name="logprog%d_%s" % (seed, loggen.SEVS[minsev]))
    except build.BuildError as e:
        return seed, minsev, "build", str(e)[-3000:], ""
    env = dict(os.environ)
    env.update(driver.SAN_ENV)
    try:
        # "memcheck": the uninstrumented program under valgrind (use of uninitialised values)
        p = subprocess.run((list(driver.MEMCHECK) if tag == "memcheck" else []) + [exe], capture_output=True, env=env,
                           timeout=3600)
    except subprocess.TimeoutExpired:
        return seed, minsev, "watchdog", "", ""
    out = p.stdout.decode("latin-1")
    err = p.stderr.decode("latin-1", "replace")
    if p.returncode != 0:
        return seed, minsev, "crash", driver.classify_report(err, p.returncode) + "\n" + err[-3000:], out
    return seed, minsev, "ok", "", out


def run_programs(seeds, tag="gasan", minima=range(6)):
    jobs = [(s, m, tag) for s in seeds for m in minima]
    return list(optrun.pmap(_build_and_run, jobs))


def evaluate(prop, run_, results, stats):
    """prop: 'C05' (formatter/sink events) or 'C10' (lazy/insert events and stream types)"""
    samples = 0
    for seed, minsev, status, info, out in results:
        case = {"program_seed": seed, "compile_time_minimum": loggen.SEVS[minsev]}
        if status == "build":
            run_.inconc("generated program %d did not build at minimum %s:\n%s" % (seed, loggen.SEVS[minsev], info[-1500:]))
            continue
        if status == "watchdog":
            run_.inconc("wall-clock watchdog fired for program %d" % seed)
            continue
        if status == "crash":
            key = info.split("\n")[0]
            if prop == "C05":
                run_.violation("crash:" + key, info, case)
            else:
                run_.inconc("program %d crashed (%s); memory errors along the << chain are C05's verdict" % (seed, key))
            continue
        prog = loggen.gen_program(seed)
        # per-instance delivery counters of the sinks: strictly 1, 2, 3, ... over the whole run
        if prop == "C05":
            last = {}
            for line in out.split("\n"):
                if line.startswith("SINK ") and " #" in line:
                    f = line.split(" ")
                    n = int(f[-1][1:])
                    if n != last.get(f[1], 0) + 1:
                        run_.violation("sequence-member-is-not-the-same-object-across-records",
                                       "sink %s reports delivery #%d after #%d: records are delivered to copies of the "
                                       "sequence's members" % (f[1], n, last.get(f[1], 0)), case)
                        break
                    last[f[1]] = n
            stats["sink-instance-counter-checks"] += sum(last.values())
        out = "\n".join(l.rsplit(" #", 1)[0] if l.startswith("SINK ") else l for l in out.split("\n"))
        types, cfgs, done = loggen.parse_log(out, loggen.item_owner(prog))
        if not done:
            run_.inconc("program %d did not finish" % seed)
            continue
        stats["programs-run"] += 1
        for lg in prog["loggers"]:
            k = lg["k"]
            if prop == "C10":
                for sev in range(6):
                    stats["stream-types-checked"] += 1
                    want = 1 if sev < minsev else 0
                    got = types.get((k, sev))
                    if got != want:
                        run_.violation("stream-type:%s" % ("not-discarding-below-minimum" if want else
                                                           "discarding-at-or-above-minimum"),
                                       "logger %d, statement severity %s, compile-time minimum %s: is null_stream = %s" %
                                       (k, loggen.SEVS[sev], loggen.SEVS[minsev], got), case)
            for thr_tuple in _all_thresholds(lg):
                thr = dict(zip(lg["leaves"], thr_tuple))
                got_cfg = cfgs.get((k, thr_tuple))
                if got_cfg is None:
                    run_.inconc("configuration %r of logger %d missing in the log of program %d" % (thr_tuple, k, seed))
                    continue
                stray = got_cfg.get(-1)
                if stray and prop == "C05":
                    run_.violation("event-outside-any-statement", "logger %d thresholds %r: %r" % (k, thr_tuple, stray[:3]),
                                   dict(case, logger=k, thresholds=list(thr_tuple)))
                for st, parent, how in loggen.all_statements(lg):
                    lazy_want, rec_want = loggen.expected_events(lg, st, minsev, thr, parent, how)
                    got = got_cfg.get(st["id"], [])
                    lazy_got = [l for l in got if l.startswith(("LAZY", "INS"))]
                    rec_got = [l for l in got if l.startswith(("FMT", "SINK"))]
                    stats["statement-executions"] += 1
                    enabled = bool(rec_want)
                    stats["enabled" if enabled else ("disabled-compile-time" if st["sev"] < minsev else "disabled-runtime")] += 1
                    c = dict(case, logger=k, filter=loggen.filter_show(lg["filter"]), thresholds=list(thr_tuple),
                             statement=_show_stmt(st), overlaps=how)
                    why = "compile-time" if st["sev"] < minsev else "runtime-filter"
                    if how == "lazylog" and not loggen.enabled(lg, parent, minsev, thr):
                        why = "enclosing-statement-disabled"
                    if how:
                        stats["overlapping-statement-executions"] += 1
                    if prop == "C05":
                        stats["formatter-calls"] += sum(1 for l in rec_got if l.startswith("FMT"))
                        stats["sink-calls"] += sum(1 for l in rec_got if l.startswith("SINK"))
                        if rec_got != rec_want:
                            run_.violation(_c05_key(rec_want, rec_got, why),
                                           "expected %r\nobserved %r" % (rec_want, rec_got), c)
                        elif enabled and samples < 3 and len(st["items"]) >= 3:
                            samples += 1
                            run_.sample(dict(c, delivered=rec_got))
                    else:
                        stats["lazy-evaluations"] += len(lazy_got)
                        first_fmt = next((i for i, l in enumerate(got) if l.startswith(("FMT", "SINK"))), len(got))
                        if any(l.startswith(("LAZY", "INS")) for l in got[first_fmt:]):
                            run_.violation("evaluated-after-the-record-was-formatted", "observed %r" % got, c)
                        if lazy_got != lazy_want:
                            run_.violation(_c10_key(lazy_want, lazy_got, why, enabled),
                                           "expected %r\nobserved %r" % (lazy_want, lazy_got), c)
                        elif samples < 3 and any(i["kind"].startswith("lazy") for i in st["items"]) and \
                                (samples % 2 == (0 if enabled else 1)):
                            samples += 1
                            run_.sample(dict(c, enabled=enabled, lazily_evaluated=lazy_got))


def _all_thresholds(lg):
    import itertools
    return itertools.product(range(6), repeat=len(lg["leaves"]))


def _show_stmt(st):
    return {"id": st["id"], "severity": loggen.SEVS[st["sev"]], "form": st["form"], "tag": st["tag"],
            "items": ["%s:%s" % (i["kind"], loggen.item_text(i)) for i in st["items"]]}


def _c05_key(want, got, why):
    if not want:
        return "delivered-although-disabled:" + why
    if not got:
        return "record-lost"
    wf, gf = [l for l in want if l.startswith("FMT")], [l for l in got if l.startswith("FMT")]
    ws, gs = [l for l in want if l.startswith("SINK")], [l for l in got if l.startswith("SINK")]
    if len(gf) > len(wf) or len(gs) > len(ws):
        return "record-duplicated"
    if len(gs) < len(ws):
        return "sequence-member-skipped"
    if gf != wf:
        a, b = wf[0].split(" "), gf[0].split(" ")
        if a[2] != b[2]:
            return "record-altered:severity"
        if a[3] != b[3]:
            return "record-altered:tag"
        return "record-altered:message"
    if sorted(gs) == sorted(ws):
        return "sequence-order"
    if got[0].startswith("SINK"):
        return "sink-before-formatter"
    return "sink-received-other-record"


def _c10_key(want, got, why, enabled):
    if not enabled:
        return "evaluated-although-disabled:" + why
    if len(got) > len(want):
        return "callable-evaluated-more-than-once"
    if len(got) < len(want):
        return "callable-not-evaluated-for-emitted-record"
    return "evaluation-order"
