"""Generic engine for the option-parser checks: a check module provides

  PROP, LEVEL, RULE
  gen(tier, seed, chunk, nchunks) -> list of cases (JSON-able dicts; bytes allowed)
  script(cid, case) -> script text for harness/optdrv.cpp
  evaluate(case, lines, S)  -> records counters / violations in the Summary S
  nchunks(tier) -> int
  finish(run, S) -> optional: required-coverage checks, extra evidence keys
and this module runs the chunks in parallel, attributes crashes, merges, and writes the
evidence through verdict.Run."""
import importlib
import json
import os
import sys

import build
import driver
import optrun
import verdict


def _work(job):
    modname, tier, seed, chunk, nchunks, tag, given = job
    mod = importlib.import_module(modname)
    S = optrun.Summary()
    cases = given if given is not None else mod.gen(tier, seed, chunk, nchunks)
    wrapper = ()
    if tag == "memcheck":
        # valgrind memcheck on the uninstrumented build: values that are used before they were initialised (a
        # member forgotten on one construction path) are invisible to ASan / UBSan; a sample of small cases
        import random as _random
        limit = 400 if tier == "quick" else 1500
        small = [c for c in cases if len(repr(c)) < 6000]
        _random.Random("memcheck-%d-%d" % (seed, chunk)).shuffle(small)
        cases = small[:limit]
        exe = optrun.optdrv("plain")
        wrapper = list(driver.MEMCHECK)
    else:
        exe = optrun.optdrv(tag)
    scripts = []
    for i, case in enumerate(cases):
        cid = "c%d_%d" % (chunk, i)
        text = mod.script(cid, case)
        if wrapper:
            # CPU budgets are for native speed: 40 times more under valgrind
            head, rest = text.split("\n", 1)
            f = head.split()
            text = "%s %s %g\n%s" % (f[0], f[1], 40 * (float(f[2]) if len(f) > 2 else 10.0), rest)
        scripts.append((cid, text))
    res = driver.run_cases(exe, scripts, wrapper=wrapper)
    S.counters["cases:" + tag] += len(cases)
    if "__process__" in res:
        r = res["__process__"]
        if r.status == "watchdog":
            S.inconc.append("wall-clock watchdog fired")
        else:
            S.violation("outside-case:" + r.key, r.report[-3000:], {"chunk": chunk})
    for i, case in enumerate(cases):
        cid = "c%d_%d" % (chunk, i)
        r = res.get(cid)
        S.n += 1
        if r is None:
            S.inconc.append("case %s was not executed" % cid)
            continue
        if r.status == "skipped":
            S.counters["cases-skipped-after-enough-failed-cases"] += 1
            S.n -= 1
            continue
        if r.status != "ok":
            if r.status == "watchdog":
                S.inconc.append("wall-clock watchdog fired in %s" % cid)
            else:
                crash_key = getattr(mod, "crash_key", None)
                key = crash_key(case, r) if crash_key else r.key
                if key is not None:
                    S.violation(key, "%s while executing the case\n%s" % (r.status, r.report[-3000:]),
                                case)
                S.counters["crashed-cases"] += 1
            continue
        try:
            mod.evaluate(case, r.lines, S)
        except Exception as e:  # an oracle bug must not pass silently
            import traceback
            S.inconc.append("oracle failure in %s: %s" % (cid, traceback.format_exc()[-800:]))
    return S


def main(modname, tier, replay, tag="gasan", tags=None):
    mod = importlib.import_module(modname)
    run = verdict.Run(mod.PROP, tier, mod.LEVEL, replay_of=replay)
    S = optrun.Summary()
    if tags is None and not replay:
        # a share of the cases is repeated on an uninstrumented build: ASan's quarantine keeps freed addresses from
        # being reused, and state that is keyed by an object's address only shows when they are; the thorough tier
        # also repeats a share under clang ASan+UBSan
        # (unspecified evaluation order, char signedness and the like differ between compilers: clang in every tier)
        tags = [tag, "casan", "plain", "cplain"] if tier == "thorough" else [tag, "plain", "casan"]
        import shutil
        if shutil.which("valgrind"):
            tags.append("memcheck")
    tags = tags or [tag]
    for tg in tags:
        optrun.optdrv(tg if tg != "memcheck" else "plain")  # build once, before forking
    conc = getattr(mod, "CONCURRENT", None)
    if replay:
        with open(replay) as fh:
            obj = verdict.unhex_json(json.load(fh))
        if isinstance(obj["case"], dict) and obj["case"].get("phase") == "concurrent-independent-use":
            import mtindep
            mtindep.replay(run, obj["case"], S.counters)
            return run.finish(10, 1, mod.RULE)
        jobs = [(modname, tier, run.seed, 0, 1, tags[0], [obj["case"]])]
    else:
        n = mod.nchunks(tier)
        jobs = []
        for tg in tags:
            # the first tag runs everything, further tags (other compilers) a share
            share = n if tg == tags[0] else (max(1, n // (4 if tier == "thorough" or tg == "plain" else 8))
                                             if tg != "memcheck" else (1 if tier == "quick" else 16))
            jobs += [(modname, tier, run.seed, c, n, tg, None) for c in range(share)]
    for part in optrun.pmap(_work, jobs):
        S.merge(part)
    if conc and not replay:
        # threads parsing / printing with their own parser objects: serial results, no data race
        import mtindep
        S.n += mtindep.phase(run, conc, tier, S.counters)
    for key, what, case in S.viol:
        run.violation(key, what, case)
    if S.counters.get("cases-skipped-after-enough-failed-cases", 0) and not S.viol:
        run.inconc("cases were skipped after many failed cases, but no violation was recorded")
    for r in S.inconc[:5]:
        run.inconc(r)
    for s in S.samples:
        run.sample(s)
    run.coverage["counters"] = {k: v for k, v in sorted(S.counters.items())}
    run.coverage["builds"] = tags
    for k, v in S.extra.items():
        run.coverage[k] = sorted(v, key=repr) if isinstance(v, set) else (dict(v) if hasattr(v, "items") else v)
    extra = {}
    if hasattr(mod, "finish") and not replay:
        extra = mod.finish(run, S, tier) or {}
    build.prune()
    # a replay re-executes one recorded case: it counts as observed also when the check's own measure of
    # "non-trivial" does not apply to that case
    return run.finish(S.n, max(1, len(S.distinct)) if replay else len(S.distinct), mod.RULE, **extra)
